"""C17 -- SolveNewmark / SolveCDF follow their documented recurrences and converge.

(1) transcription equality: pyYeti's histories (d, v, a, z) against literal transcriptions
    of the class docstrings (vf/oracles/recurrences.py), tolerance = conditioned round-off
    measured on the ORACLE (spread of the transcription under 1e-13 step-level noise);
    SolveCDF with diagonal damping bit-identical (tobytes) to SolveUnc.
(2) bounded-progress convergence on step ladders against the exact response of the
    continuous problem (sinusoidal forcing embedded as an autonomous LTI system, sampled
    exactly with vf/oracles/lti.py).
(3) stability: free / step response over 2000 huge steps stays bounded; spectral radius of
    the one-step amplification matrix identified from executions <= 1 + 1e-9.
(4) massless DOF: in (1), (2) (against the statically condensed exact system) and (3).
"""
from vf import core

ID = "C17"
LEVEL = "exploration"
RULE = ("parts: nm = SolveNewmark vs transcription (n 1..6; m None/1-D/2-D diag/2-D full, "
        "massless DOF; b,k diagonal or full; rf leading/trailing/interleaved; d0/v0; "
        "F(0) consistent or not; 0..3 nonlinear callables {cubic spring, gap, "
        "velocity-dependent} with transforms; nt 2..200; w_max*h log-uniform 0.02..3); "
        "cdf = SolveCDF / SolveUnc(cd_as_force) with full damping vs the Vpart/alpha "
        "transcription (orders 0/1, rb, rf, static_ic, symmetric and non-symmetric C_od) "
        "and SolveCDF(diagonal b) bit-compared with SolveUnc; ladder = 6 rungs "
        "(48..1536 steps over 3 shortest periods) for Newmark {inconsistent, consistent "
        "start-up} x {regular, massless DOF} and SolveCDF order {0,1}; stab = damped "
        "symmetric systems (optionally with a massless DOF) at h/T_min in {1e-2, 1, 1e2, "
        "1e4, 1e6}.  distinct = digest of the seed-derived case descriptor; non-trivial "
        "= non-zero force or initial state and at least 2 time steps")
ASSUMPTIONS = [
    "the class docstrings of SolveNewmark and SolveCDF are the specification; v[:, 0] is "
    "read as the prescribed initial velocity (an input), not the central difference",
    "SolveCDF's 'pre-formulated integration coefficients' are the exact one-step maps of "
    "the SDOF equation (Van Loan in mpmath, 30 digits); their documented (w h)^-3 accuracy "
    "grade (C01) is granted to pyYeti through the noise model, workload keeps "
    "min(w_n h, w_d h) >= 0.01",
    "'converges as h -> 0' is judged on a finite ladder only (6 rungs, errors 1e-1..1e-7, "
    ">= 1e3 x the round-off floor measured on the oracle)",
    "nonlinear callables receive the non-rf partition of the displacement history (what "
    "pyYeti's integration loop hands them for j >= 1); with a leading/interleaved rf "
    "block pyYeti hands the FULL array at j = 0 -> finding nonlin-rf-first-call",
]
MIN_NONTRIVIAL = {"quick": 800, "thorough": 60000}
TIMEOUT = {"quick": 900, "thorough": 7200}
EPS = 2.220446049250313e-16

PLAN = {  # part -> (slices, cases per slice)
    "quick": {"nm": (6, 200), "cdf": (4, 110), "ladder": (4, 14), "stab": (2, 16)},
    "thorough": {"nm": (16, 4000), "cdf": (16, 1000), "ladder": (16, 150),
                 "stab": (16, 100)},
}


def shards(tier, seed):
    return [{"part": p, "slice": s, "ncase": nc}
            for p, (ns, nc) in PLAN[tier].items() for s in range(ns)]


# ------------------------------------------------------------------------------------
# nonlinear callables (pure functions of the displacement history up to column j)
# ------------------------------------------------------------------------------------

def nl_cubic(d, j, h, idx, kap):
    import numpy as np
    return np.asarray(kap) * d[idx, j] ** 3


def nl_gap(d, j, h, i, l, g, kg):
    import numpy as np
    x = d[i, j] - d[l, j] - g
    return np.array([kg * x if x > 0.0 else 0.0])


def nl_decoy(d, j, h, amp):
    import numpy as np
    return np.array([amp])


def nl_veldep(d, j, h, idx, c):
    import numpy as np
    return np.asarray(c) * (d[idx, j] - d[idx, j - 1]) / h


# ------------------------------------------------------------------------------------
# shared helpers
# ------------------------------------------------------------------------------------

def _sym_mix(r, np, diag, strength):
    n = len(diag)
    T = np.eye(n) + strength * r.standard_normal((n, n)) / max(1, n) ** 0.5
    return T.T @ (np.asarray(diag)[:, None] * T)


def _noise_tol(np, ref, runs, floor_scale=None):
    """DESIGN 4.2 on the oracle: tol = 200*(sigma/1e-13)*eps + 1e-13*scale, sigma = spread
    of the transcription under 1e-13 step-level noise (3*rms of the noisy runs, running
    maximum in time, rows mixed at 10 %).  Returns (tol, conditioning)."""
    dev = np.sqrt(np.mean([np.abs(x - ref) ** 2 for x in runs], axis=0)) * 3.0
    dev = np.maximum.accumulate(dev, axis=1)
    dev = np.maximum(dev, 0.1 * dev.max(axis=0, keepdims=True))
    scale = float(np.abs(ref).max()) if floor_scale is None else floor_scale
    # 400 (not 200): the spread is estimated from a handful of noisy runs; for 2-3 step
    # histories that estimate is itself noisy (one observed 1.02 in 30 seeds at 200)
    tol = 400.0 * (dev / 1e-13) * EPS + 1e-13 * scale + 1e-300
    cond = float(dev.max() / (1e-13 * scale)) if scale > 0 else 0.0
    return tol, cond


def _exc(sh, where, case, tags, e):
    import traceback
    sh.violation("exception:" + where, case,
                 {"exc": repr(e), "tb": traceback.format_exc()[-1500:]}, tags)


# ------------------------------------------------------------------------------------
# part nm: SolveNewmark == transcription
# ------------------------------------------------------------------------------------

def make_newmark_case(r, np, ci):
    n = int(r.integers(1, 7))
    full = bool(r.random() < 0.5) and n >= 2
    mform = ["none", "1d", "2d-diag", "2d-full"][int(r.integers(0, 4))]
    if mform == "2d-full" and not full:
        mform = "2d-diag"
    mass = np.ones(n) if mform == "none" else r.uniform(0.5, 10.0, n)
    wn = 2 * np.pi * r.uniform(1.0, 30.0, n)
    zeta = r.uniform(0.0, 0.3, n)
    if r.random() < 0.2:
        zeta[:] = 0.0
    kd = mass * wn ** 2
    bd = 2 * zeta * mass * wn
    massless = []
    if mform != "none" and n >= 2 and r.random() < 0.35:
        massless = sorted(set(int(x) for x in r.integers(0, n, int(r.integers(1, 3)))))
        if len(massless) == n:
            massless = massless[:-1]
    # rf partition
    rfmode = "none"
    rf = np.array([], int)
    nnl = int(r.integers(0, 4)) if r.random() < 0.5 else 0
    if n >= 2 and r.random() < 0.35:
        nrf = int(r.integers(1, max(2, n // 2 + 1)))
        if n >= 5 and r.random() < 0.4:
            nrf = n - 1 - int(r.integers(0, 2))        # large rf sets (4, 5 DOF)
        rfmode = ["leading", "trailing", "interleaved"][int(r.integers(0, 3))]
        if nnl and r.random() < 0.7:
            rfmode = "trailing"
        if rfmode == "leading":
            rf = np.arange(nrf)
        elif rfmode == "trailing":
            rf = np.arange(n - nrf, n)
        else:
            rf = np.sort(r.choice(n, nrf, replace=False))
            if np.all(np.diff(rf) == 1) and (rf[0] == 0 or rf[-1] == n - 1) and n >= 3:
                rf = np.array([1])
    nonrf = np.setdiff1d(np.arange(n), rf)
    massless = [i for i in massless if i in set(nonrf.tolist())]
    if len(massless) == len(nonrf) and len(massless):
        massless = massless[:-1]
    mass_eff = mass.copy()
    mass_eff[massless] = 0.0
    M = np.diag(mass_eff)
    B = np.diag(bd)
    K = np.diag(kd)
    if full:
        ix = np.ix_(nonrf, nonrf)
        if len(nonrf) >= 2:
            K[ix] = _sym_mix(r, np, kd[nonrf], 0.4)
            B[ix] = _sym_mix(r, np, bd[nonrf], 0.5)
            if r.random() < 0.3:                       # non-symmetric is legal too
                K[ix] += 0.05 * kd[nonrf].mean() * np.triu(
                    r.standard_normal((len(nonrf),) * 2), 1)
            if mform == "2d-full":
                M[ix] = _sym_mix(r, np, mass_eff[nonrf], 0.3)
        if len(rf) >= 2:
            K[np.ix_(rf, rf)] = _sym_mix(r, np, kd[rf], 0.3)
    massive = [i for i in nonrf if i not in massless]
    wmax = wn[massive].max() if massive else wn.max()
    gmax = float(np.exp(r.uniform(np.log(0.02), np.log(3.0 if not nnl else 1.0))))
    h = gmax / wmax
    u = r.random()
    nt = 2 if u < 0.06 else 3 if u < 0.12 else int(np.exp(r.uniform(np.log(4), np.log(201))))
    nt = min(nt, 200)

    def isdiag(a):
        return not np.any(a - np.diag(np.diag(a)))

    force2d = bool(r.random() < 0.25)
    m_in = None if mform == "none" else (M.copy() if (mform.startswith("2d")
                                                      or not isdiag(M)) else
                                         np.diag(M).copy())
    b_in = B.copy() if (not isdiag(B) or force2d) else np.diag(B).copy()
    k_in = K.copy() if (not isdiag(K) or force2d) else np.diag(K).copy()
    unc = all(a is None or a.ndim == 1 or isdiag(a) for a in (m_in, b_in, k_in))

    icmode = ["zero", "d0", "v0", "d0v0"][int(r.integers(0, 4))]
    d0 = r.standard_normal(n) if icmode in ("d0", "d0v0") else None
    v0 = r.standard_normal(n) * wn.mean() * 0.3 if icmode in ("v0", "d0v0") else None
    fs = kd.copy()
    if full:
        fs[nonrf] = kd[nonrf].mean()
    ftype = ["noise", "smooth", "step", "zero"][int(r.integers(0, 4))]
    t = np.arange(nt) * h
    if ftype == "noise":
        F = fs[:, None] * r.standard_normal((n, nt))
    elif ftype == "smooth":
        F = fs[:, None] * np.sin(np.outer(r.uniform(0.2, 1.0, n) * wmax, t)
                                 + r.uniform(0, 6.28, n)[:, None])
    elif ftype == "step":
        F = fs[:, None] * r.standard_normal((n, 1)) * np.ones((1, nt))
    else:
        F = np.zeros((n, nt))
    consistent = bool(r.random() < 0.4)
    if consistent:
        u0 = np.zeros(n) if d0 is None else d0
        w0 = np.zeros(n) if v0 is None else v0
        ix = np.ix_(nonrf, nonrf)
        F[nonrf, 0] = K[ix] @ u0[nonrf] + B[ix] @ w0[nonrf]

    # nonlinear terms, row indices relative to the non-rf partition (rf trailing)
    ks = len(nonrf)
    nl = []
    kinds = []
    kref = kd[nonrf].mean() if ks else 1.0
    for q in range(nnl if ks else 0):
        kind = ["cubic", "gap", "veldep"][int(r.integers(0, 3))]
        if kind == "gap" and ks < 2:
            kind = "cubic"
        kinds.append(kind)
        if kind == "cubic":
            idx = sorted(set(int(x) for x in r.integers(0, ks, int(r.integers(1, 3)))))
            kap = (r.uniform(0.05, 0.3, len(idx)) * kref).tolist()
            T = np.zeros((ks, len(idx)))
            T[idx, np.arange(len(idx))] = -1.0
            if r.random() < 0.3:
                T = T + 0.1 * r.standard_normal(T.shape)
            nl.append((f"cubic{q}", nl_cubic, T, {"idx": idx, "kap": kap}))
        elif kind == "gap":
            i, l = (int(x) for x in r.choice(ks, 2, replace=False))
            T = np.zeros((ks, 1))
            T[i, 0], T[l, 0] = -1.0, 1.0
            nl.append((f"gap{q}", nl_gap, T,
                       {"i": i, "l": l, "g": float(r.uniform(-0.3, 0.5)),
                        "kg": float(r.uniform(0.1, 0.5) * kref)}))
        else:
            idx = sorted(set(int(x) for x in r.integers(0, ks, int(r.integers(1, 3)))))
            c = (r.uniform(0.05, 0.4, len(idx)) * (bd[nonrf].mean() + 0.02 * kref * h)
                 ).tolist()
            T = np.zeros((ks, len(idx)))
            T[idx, np.arange(len(idx))] = -1.0
            nl.append((f"vel{q}", nl_veldep, T, {"idx": idx, "c": c}))
    tags = {"part": "nm", "n": n, "full": full, "unc": bool(unc), "mform": mform,
            "massless": len(massless), "rf": rfmode, "nrf": int(len(rf)), "nt": nt,
            "ic": icmode, "consistent": consistent, "ftype": ftype, "nnl": len(nl),
            "nlkinds": sorted(set(kinds)), "wh": round(gmax, 4),
            "undamped": bool(not np.any(bd)),
            "nl_with_rf_not_trailing": bool(nl and rfmode in ("leading", "interleaved"))}
    # the rf argument is a set: hand it over unsorted now and then (ends in place and
    # interior shuffled for the larger ones -- such a vector still is not a range)
    rf_arg = rf.copy()
    if len(rf) >= 2 and r.random() < 0.4:
        if len(rf) >= 4 and r.random() < 0.6:
            mid = r.permutation(rf[1:-1])
            if np.array_equal(mid, rf[1:-1]):
                mid = mid[::-1]
            rf_arg = np.concatenate([rf[:1], mid, rf[-1:]])
        else:
            rf_arg = r.permutation(rf)
        tags["rf_unsorted"] = bool(np.any(np.diff(rf_arg) < 0))
    return dict(m=m_in, b=b_in, k=k_in, h=h, rf=(rf_arg if len(rf) else None), M=M, B=B,
                K=K, F=F, d0=d0, v0=v0, nl=nl, n=n, nt=nt, nonrf=nonrf, tags=tags)


def run_newmark_case(sh, np, ode, rec, C, r, case):
    tags = C["tags"]
    ts = ode.SolveNewmark(C["m"], C["b"], C["k"], C["h"], rf=C["rf"])
    ks = len(C["nonrf"])
    if ks and case.get("index", 0) % 3 == 0:
        # history on one solver: an earlier definition of the nonlinear terms (other key,
        # large force) is REPLACED by the next call -- the documented recurrence contains
        # the terms of the current definition only; def_nonlin({}) switches them off
        Td = np.zeros((ks, 1))
        Td[int(r.integers(0, ks)), 0] = 1.0
        amp = 1e3 * float(np.abs(C["F"]).max() + 1.0)
        ts.def_nonlin({"decoy": (nl_decoy, Td, {"amp": amp})})
        sh.count("cell:nm:def_nonlin-redefined")
        if not C["nl"]:
            ts.def_nonlin({})
    if C["nl"]:
        dct = {}
        for q, (key, func, T, args) in enumerate(C["nl"]):
            dct[key] = (func, T.copy(), args) if (q % 2 == 0 or args) else (func, T.copy())
        ts.def_nonlin(dct)
    Fin = np.asfortranarray(C["F"].copy()) if case.get("index", 0) % 3 == 1 \
        else C["F"].copy()
    ics = [None if x is None else np.array(x, copy=True) for x in (C["d0"], C["v0"])]
    sol = ts.tsolve(Fin, C["d0"], C["v0"])
    if case.get("index", 0) % 3 == 2:
        # a second solution of the same length on the same solver object must leave the
        # first one handed out untouched
        keep_ = {q: np.array(getattr(sol, q), copy=True) for q in "dva"}
        try:
            ts.tsolve(C["F"] * 0.5 + 1.0, C["d0"], C["v0"])
        except Exception:      # noqa: BLE001 -- only the first call is judged
            pass
        sh.count("mon:nm-earlier-result-unmutated")
        if any(not np.array_equal(np.asarray(getattr(sol, q)), keep_[q], equal_nan=True)
               for q in "dva"):
            sh.violation("nm-earlier-result-unmutated", case, {}, tags)
    sh.count("mon:nm-inputs-unmutated")
    if not np.array_equal(Fin, C["F"]) or any(
            a is not None and not np.array_equal(a, b)
            for a, b in zip(ics, (C["d0"], C["v0"]))):
        sh.violation("nm-inputs-unmutated", case,
                     {"force_changed": bool(not np.array_equal(Fin, C["F"])),
                      "fortran_ordered": bool(case.get("index", 0) % 3 == 1)}, tags)
    args = (None if C["m"] is None else C["M"], C["B"], C["K"], C["F"], C["h"],
            C["d0"], C["v0"])
    kw = dict(rf=C["rf"], nonlin=C["nl"])
    ref = rec.newmark(*args, **kw)
    big = max(np.abs(ref["d"]).max(), 1e-300)
    if not np.all(np.isfinite(ref["d"])) or big > 1e8:
        sh.refused += 1
        sh.count("refused:nm-oracle-diverges")
        return
    runs = [rec.newmark(*args, **kw, noise=(r, 1e-13)) for _ in range(6)]
    # separate monitor names for the stratum of the open finding nonlin-rf-first-call,
    # so that its observations do not hide the margins of the other strata
    pre = "nm-nlrf-" if tags["nl_with_rf_not_trailing"] else "nm-"
    worstc = 0.0
    for q in "dva":
        tol, cond = _noise_tol(np, ref[q], [x[q] for x in runs])
        worstc = max(worstc, cond)
        if cond > 1e8:
            sh.refused += 1
            sh.count("refused:nm-illconditioned")
            return
        sh.check_close(pre + q, getattr(sol, q), ref[q], tol, case, tags)
    sh.count("cell:nm:cond:" + ("<1e2" if worstc < 1e2 else "1e2-1e4" if worstc < 1e4
                                else "1e4-1e6" if worstc < 1e6 else ">1e6"))
    sh.check_close("nm-t", sol.t, C["h"] * np.arange(C["nt"]), 0.0, case, tags)
    if C["nl"]:
        zs = getattr(sol, "z", None)
        if not isinstance(zs, dict) or sorted(zs) != sorted(k for k, *_ in C["nl"]):
            sh.violation("nm-z-keys", case, {"got": sorted(zs) if zs else None}, tags)
        else:
            for key, *_ in C["nl"]:
                tol, _c = _noise_tol(np, ref["z"][key], [x["z"][key] for x in runs])
                sh.check_close(pre + "z", zs[key], ref["z"][key], tol, case, tags)
    else:
        sh.check_equal("nm-no-z", hasattr(sol, "z"), False, case, tags)


def part_nm(sh, np, ode, rec, params):
    for ci in range(params["ncase"]):
        r = core.rng(sh.seed, "C17", "nm", params["slice"], ci)
        C = make_newmark_case(r, np, ci)
        t = C["tags"]
        case = {"part": "nm", "slice": params["slice"], "index": ci, "tags": t}
        nontriv = bool(np.any(C["F"]) or C["d0"] is not None or C["v0"] is not None)
        sh.case(["nm", params["slice"], ci, t["n"], t["nt"]], nontriv, sample=case)
        for cell in (f"path:{'unc' if t['unc'] else 'full'}", f"m:{t['mform']}",
                     f"massless:{'yes' if t['massless'] else 'no'}", f"rf:{t['rf']}",
                     f"ic:{t['ic']}", f"consistent:{t['consistent']}",
                     f"nnl:{t['nnl']}", f"ftype:{t['ftype']}",
                     "nt:" + ("2" if t["nt"] == 2 else "3" if t["nt"] == 3 else
                              "4-30" if t["nt"] <= 30 else "31-200")):
            sh.count("cell:nm:" + cell)
        for k in t["nlkinds"]:
            sh.count("cell:nm:nl:" + k)
        if t["massless"] and not t["unc"]:
            sh.count("cell:nm:massless-full")
        if t["nl_with_rf_not_trailing"]:
            sh.count("cell:nm:nonlinear-with-rf-not-trailing")
        try:
            run_newmark_case(sh, np, ode, rec, C, r, case)
        except Exception as e:
            _exc(sh, "newmark", case, t, e)


# ------------------------------------------------------------------------------------
# part cdf: SolveCDF == Vpart/alpha transcription; diagonal b bit-identical to SolveUnc
# ------------------------------------------------------------------------------------

def make_cdf_case(r, np, diag_only=False):
    n = int(r.integers(2, 6))
    mform = ["none", "1d", "2d"][int(r.integers(0, 3))]
    mass = np.ones(n) if mform == "none" else r.uniform(0.5, 10.0, n)
    f0 = r.uniform(2.0, 8.0)
    wn = 2 * np.pi * f0 * r.uniform(1.0, 8.0, n)
    zeta = r.uniform(0.01, 0.3, n)
    for i in range(n):
        u = r.random()
        if u < 0.08:
            zeta[i] = 1.0
        elif u < 0.16:
            zeta[i] = r.uniform(1.3, 2.5)
    kd = mass * wn ** 2
    bd = 2 * zeta * mass * wn
    rbmode = "none"
    rb = np.array([], int)
    if r.random() < 0.3:
        rbmode = ["auto", "explicit"][int(r.integers(0, 2))]
        rb = np.array([int(r.integers(0, n))])
        kd[rb] = 0.0
        bd[rb] = 0.0
    rfmode = "none"
    rf = np.array([], int)
    if n >= 3 and r.random() < 0.3:
        cand = [i for i in range(n) if i not in rb.tolist()]
        rf = np.array([cand[int(r.integers(0, len(cand)))]])
        rfmode = ("leading" if rf[0] == 0 else "trailing" if rf[0] == n - 1
                  else "interleaved")
        kd[rf] = mass[rf] * (2 * np.pi * 300.0) ** 2
    nonrf = np.setdiff1d(np.arange(n), rf)
    el = np.array([i for i in nonrf if i not in rb.tolist()], int)
    wd = wn * np.sqrt(np.abs(1 - zeta ** 2))
    g = np.where(np.abs(1 - zeta ** 2) > 1e-8, np.minimum(wn, wd), wn)
    gmin_w = g[el].min() if len(el) else 2 * np.pi * f0
    gmax_w = wn[el].max() if len(el) else 2 * np.pi * f0
    h = max(float(np.exp(r.uniform(np.log(0.1), np.log(1.5)))) / gmax_w, 0.0101 / gmin_w)
    order = int(r.integers(0, 2))
    C = np.diag(bd)
    symmetric = bool(r.random() < 0.5)
    if not diag_only:
        sc = 0.25 * (bd[el].mean() if len(el) else 1.0)
        X = sc * r.standard_normal((len(nonrf),) * 2)
        if symmetric:
            X = (X + X.T) / 2
        X[np.arange(len(nonrf)), np.arange(len(nonrf))] = 0.0
        shape_ = ["dense", "dense", "upper", "lower", "rows-zeroed"][int(r.integers(0, 5))]
        if shape_ != "dense" and not symmetric and len(nonrf) >= 2:
            # one-way coupling: DOF that drive other equations through damping without
            # being driven themselves (zero row, non-zero column in the off-diagonal part)
            if shape_ == "upper":
                X = np.triu(X, 1)
            elif shape_ == "lower":
                X = np.tril(X, -1)
            else:
                nz_ = int(r.integers(1, len(nonrf)))          # some rows, never all
                X[r.choice(len(nonrf), nz_, replace=False), :] = 0.0
        else:
            shape_ = "dense"
        C[np.ix_(nonrf, nonrf)] += X
    else:
        shape_ = "diag"
    nt = int(np.exp(r.uniform(np.log(2), np.log(150))))
    fs = np.where(kd > 0, kd, mass * (2 * np.pi * f0) ** 2)
    F = fs[:, None] * r.standard_normal((n, nt))
    icmode = ["zero", "d0", "v0", "d0v0", "static"][int(r.integers(0, 5))]
    d0 = r.standard_normal(n) if icmode in ("d0", "d0v0") else None
    v0 = r.standard_normal(n) * wn.mean() * 0.3 if icmode in ("v0", "d0v0") else None
    m_in = None if mform == "none" else (np.diag(mass) if mform == "2d" else mass.copy())
    k_in = np.diag(kd) if r.random() < 0.3 else kd.copy()
    b_in = C.copy()
    if diag_only and r.random() < 0.5:
        b_in = np.diag(C).copy()
    rb_arg = None if rbmode in ("none", "auto") else rb.copy()
    if rbmode == "none" and r.random() < 0.5:
        rb_arg = []
    tags = {"part": "cdf", "n": n, "order": order, "mform": mform, "rb": rbmode,
            "rf": rfmode, "ic": icmode, "symmetric": symmetric, "nt": nt,
            "gmin": round(float(gmin_w * h), 4), "diag_only": diag_only,
            "coupling_shape": shape_}
    return dict(m=m_in, b=b_in, k=k_in, h=h, rb=rb_arg, rf=(rf if len(rf) else None),
                order=order, mass=mass, kd=kd, C=C, F=F, d0=d0, v0=v0, el=el, rbidx=rb,
                static_ic=(icmode == "static"), n=n, nt=nt, tags=tags)


def part_cdf(sh, np, ode, rec, params):
    for ci in range(params["ncase"]):
        r = core.rng(sh.seed, "C17", "cdf", params["slice"], ci)
        diag_only = ci % 4 == 3
        C = make_cdf_case(r, np, diag_only)
        t = C["tags"]
        case = {"part": "cdf", "slice": params["slice"], "index": ci, "tags": t}
        sh.case(["cdf", params["slice"], ci, t["n"], t["nt"]], True, sample=case)
        via = "class" if r.random() < 0.5 else "flag"
        t["via"] = via
        kw = dict(rb=C["rb"], rf=C["rf"], order=C["order"])
        try:
            if via == "class":
                ts = ode.SolveCDF(C["m"], C["b"], C["k"], C["h"], **kw)
            else:
                ts = ode.SolveUnc(C["m"], C["b"], C["k"], C["h"], cd_as_force=True, **kw)
            Fin = np.asfortranarray(C["F"].copy()) if ci % 3 == 1 else C["F"].copy()
            sol = ts.tsolve(Fin, C["d0"], C["v0"], static_ic=C["static_ic"])
            if ci % 3 == 2:
                keep_ = {q: np.array(getattr(sol, q), copy=True) for q in "dva"}
                try:
                    ts.tsolve(C["F"] * 0.5 + 1.0, C["d0"], C["v0"],
                              static_ic=C["static_ic"])
                except Exception:      # noqa: BLE001
                    pass
                sh.count("mon:cdf-earlier-result-unmutated")
                if any(not np.array_equal(np.asarray(getattr(sol, q)), keep_[q],
                                          equal_nan=True) for q in "dva"):
                    sh.violation("cdf-earlier-result-unmutated", case, {}, t)
            sh.count("mon:cdf-inputs-unmutated")
            if not np.array_equal(Fin, C["F"]):
                sh.violation("cdf-inputs-unmutated", case,
                             {"fortran_ordered": bool(ci % 3 == 1)}, t)
            if diag_only:
                tu = ode.SolveUnc(C["m"], C["b"], C["k"], C["h"], **kw)
                su = tu.tsolve(np.asfortranarray(C["F"].copy()) if ci % 3 == 1
                               else C["F"].copy(), C["d0"], C["v0"],
                               static_ic=C["static_ic"])
                sh.count(f"cell:cdf:diag:order{C['order']}")
                sh.check_equal("cdf-diag-flag-off", bool(ts.cdforces), False, case, t)
                for q in "dva":
                    sh.check_equal("cdf-diag-bit-identical-" + q, getattr(sol, q),
                                   getattr(su, q), case, t)
                continue
            sh.check_equal("cdf-path-taken", bool(ts.cdforces), True, case, t)
            if ci % 4 == 1 and C["nt"] >= 8 and via == "class":
                # the step-at-a-time form of the same recurrence: march to the end, go back
                # several steps and re-solve them with the SAME forces -- the history must
                # come out as tsolve gave it (a damping-force term kept from the last step
                # solved would belong to another step)
                tg_ = ode.SolveCDF(C["m"], C["b"], C["k"], C["h"], **kw)
                F_ = C["F"]
                try:
                    gen, dg, vg = tg_.generator(C["nt"], F_[:, 0].copy(), d0=C["d0"],
                                                v0=C["v0"], static_ic=C["static_ic"])
                except NotImplementedError:
                    gen = None      # documented: no generator for interspersed partitions
                    sh.count("cell:cdf:generator-not-implemented-for-layout")
                if gen is not None:
                    for j_ in range(1, C["nt"]):
                        gen.send((j_, F_[:, j_].copy()))
                    back = int(r.integers(2, min(6, C["nt"] - 2) + 1))
                    for j_ in range(C["nt"] - back, C["nt"]):
                        gen.send((j_, F_[:, j_].copy()))
                    solg = tg_.finalize()
                    sh.count("mon:cdf-generator-goes-back")
                    for q in "dv":
                        refq = getattr(sol, q)
                        tolq = 1e-12 * np.abs(refq).max(axis=1, keepdims=True) + 1e-300
                        sh.check_close("cdf-generator-goes-back-" + q, getattr(solg, q),
                                       refq, np.broadcast_to(tolq, refq.shape), case, t)
            for cell in (f"order{C['order']}", f"m:{t['mform']}", f"rb:{t['rb']}",
                         f"rf:{t['rf']}", f"ic:{t['ic']}", f"via:{via}",
                         f"sym:{t['symmetric']}"):
                sh.count("cell:cdf:" + cell)
            d0 = C["d0"]
            if C["static_ic"]:
                # documented static start: elastic d0 = P0/k, rigid-body d0 = 0
                d0 = np.zeros(C["n"])
                d0[C["el"]] = C["F"][C["el"], 0] / C["kd"][C["el"]]
            args = (C["mass"], C["C"], C["kd"], C["F"], C["h"], d0, C["v0"])
            okw = dict(order=C["order"], rf=C["rf"])
            ref = rec.cdf(*args, **okw)
            runs = [rec.cdf(*args, **okw, noise=(r, 1e-13)) for _ in range(6)]
            for q in "dva":
                tol, cond = _noise_tol(np, ref[q], [x[q] for x in runs])
                if cond > 1e8:
                    sh.refused += 1
                    break
                sh.check_close("cdf-" + q, getattr(sol, q), ref[q], tol, case, t)
        except Exception as e:
            _exc(sh, "cdf", case, t, e)


def part_cdf_pre_eig(sh, np, ode, rec, params):
    """SolveCDF / SolveUnc(cd_as_force=True) with ``pre_eig=True`` on PHYSICAL (full,
    symmetric) mass and stiffness: the documented recurrence runs on the modal system
    (eigh(k, m), unit modal mass, modal damping phi' b phi whose off-diagonal part is the
    force term) and the answer is mapped back with phi.  The harness does its own eigh."""
    from scipy.linalg import eigh
    for ci in range(max(2, params["ncase"] // 4)):
        r = core.rng(sh.seed, "C17", "cdf-pre", params["slice"], ci)
        n = int(r.integers(2, 6))
        f0 = r.uniform(2.0, 8.0)
        # well separated modal frequencies: the diag / off-diag split of the modal damping
        # is only defined where the modes are
        wn = 2 * np.pi * f0 * np.cumprod(r.uniform(1.25, 1.9, n))
        zeta = r.uniform(0.01, 0.3, n)
        Qm, _ = np.linalg.qr(r.standard_normal((n, n)))
        sc = r.uniform(0.5, 3.0, n)
        Ti = (Qm * sc) @ np.linalg.qr(r.standard_normal((n, n)))[0]     # = inverse of phi
        M = Ti.T @ Ti
        K = Ti.T @ (wn[:, None] ** 2 * Ti)
        M, K = (M + M.T) / 2, (K + K.T) / 2
        Cm = np.diag(2 * zeta * wn)
        X = 0.25 * np.diag(Cm).mean() * r.standard_normal((n, n))
        symmetric = bool(r.random() < 0.5)
        if symmetric:
            X = (X + X.T) / 2
        X[np.arange(n), np.arange(n)] = 0.0
        B = Ti.T @ (Cm + X) @ Ti
        h = float(np.exp(r.uniform(np.log(0.1), np.log(1.5)))) / wn.max()
        h = max(h, 0.0101 / (wn * np.sqrt(1 - zeta ** 2)).min())
        order = int(r.integers(0, 2))
        nt = int(np.exp(r.uniform(np.log(2), np.log(120))))
        F = Ti.T @ (wn[:, None] ** 2 * r.standard_normal((n, nt)))
        icmode = ["zero", "d0", "v0", "d0v0", "static"][int(r.integers(0, 5))]
        d0 = r.standard_normal(n) if icmode in ("d0", "d0v0") else None
        v0 = r.standard_normal(n) * wn.mean() * 0.3 if icmode in ("v0", "d0v0") else None
        via = "class" if r.random() < 0.5 else "flag"
        mform = ["2d", "none"][int(r.random() < 0.25)]
        if mform == "none":
            M = np.eye(n)
            Qo = np.linalg.qr(r.standard_normal((n, n)))[0]
            Ti = Qo.T
            K = Qo @ (wn[:, None] ** 2 * Qo.T)
            K = (K + K.T) / 2
            B = Qo @ (Cm + X) @ Qo.T
            F = Qo @ (wn[:, None] ** 2 * r.standard_normal((n, nt)))
        t = {"part": "cdf-pre_eig", "n": n, "order": order, "ic": icmode, "via": via,
             "symmetric": symmetric, "nt": nt, "mform": mform}
        case = {"part": "cdf-pre_eig", "slice": params["slice"], "index": ci, "tags": t}
        sh.case(["cdf-pre", params["slice"], ci, n, nt], True, sample=case)
        try:
            m_in = None if mform == "none" else M.copy()
            if via == "class":
                ts = ode.SolveCDF(m_in, B.copy(), K.copy(), h, order=order, pre_eig=True)
            else:
                ts = ode.SolveUnc(m_in, B.copy(), K.copy(), h, order=order, pre_eig=True,
                                  cd_as_force=True)
            sol = ts.tsolve(F.copy(), d0, v0, static_ic=(icmode == "static"))
            sh.check_equal("cdf-path-taken", bool(ts.cdforces), True, case, t)
            sh.count("cell:cdf:pre_eig:" + via)
            sh.count("cell:cdf:pre_eig:m-" + mform)

            def modal_run(Mx, Bx, Kx, noise):
                w2, phi = eigh(Kx, Mx)
                Pm = phi.T @ F
                Cx = phi.T @ Bx @ phi
                if icmode == "static":
                    q0 = Pm[:, 0] / w2
                else:
                    q0 = None if d0 is None else phi.T @ (Mx @ d0)
                w0 = None if v0 is None else phi.T @ (Mx @ v0)
                o = rec.cdf(None, Cx, w2, Pm, h, q0, w0, order=order, noise=noise)
                return {q: phi @ o[q] for q in "dva"}

            def sym_pert(A):
                E = r.standard_normal(A.shape)
                return A * (1 + 1e-13 * (E + E.T) / 2)
            ref = modal_run(M, B, K, None)
            runs = [modal_run(sym_pert(M), B * (1 + 1e-13 * r.standard_normal(B.shape)),
                              sym_pert(K), (r, 1e-13)) for _ in range(6)]
            for q in "dva":
                tol, cond = _noise_tol(np, ref[q], [x[q] for x in runs])
                if cond > 1e8:
                    sh.refused += 1
                    break
                sh.check_close("cdf-pre_eig-" + q, getattr(sol, q), ref[q], tol, case, t)
        except Exception as e:
            _exc(sh, "cdf-pre_eig", case, t, e)


# ------------------------------------------------------------------------------------
# part ladder: convergence against the exact continuous response
# ------------------------------------------------------------------------------------

def exact_sinusoidal(np, lti, M, B, K, amp, om, ph, tgrid, d0, v0):
    """Exact response of M q'' + B q' + K q = sum_k amp[:, k] sin(om_k t + ph_k) at the
    grid: the forcing is generated by autonomous oscillators appended to the state, the
    augmented homogeneous system is sampled with the matrix exponential (lti)."""
    n = K.shape[0]
    nk = len(om)
    Mi = np.linalg.inv(M)
    N = 2 * n + 2 * nk
    A = np.zeros((N, N))
    A[:n, n:2 * n] = np.eye(n)
    A[n:2 * n, :n] = -Mi @ K
    A[n:2 * n, n:2 * n] = -Mi @ B
    x0 = np.zeros(N)
    x0[:n], x0[n:2 * n] = d0, v0
    for k in range(nk):
        i = 2 * n + 2 * k
        A[i, i + 1], A[i + 1, i] = om[k], -om[k]
        A[n:2 * n, i] = Mi @ amp[:, k]
        x0[i], x0[i + 1] = np.sin(ph[k]), np.cos(ph[k])
    h = tgrid[1] - tgrid[0]
    X = lti.simulate_first_order(A, np.zeros((N, 1)), np.zeros((1, len(tgrid))), h, x0,
                                 order=0)
    return X[:n], X[n:2 * n]


RUNGS = [48, 96, 192, 384, 768, 1536]


def run_ladder(sh, np, ode, rec, lti, r, flavour, case, tags):
    n = int(r.integers(2, 5)) if flavour.startswith(("cdf", "nm-massless")) else \
        int(r.integers(1, 5))
    mass = r.uniform(0.5, 5.0, n)
    wn = 2 * np.pi * r.uniform(1.0, 4.0, n)
    zeta = r.uniform(0.02, 0.2, n)
    kd, bd = mass * wn ** 2, 2 * zeta * mass * wn
    nk = 2
    om = 2 * np.pi * r.uniform(0.5, 3.0, nk)
    ph = r.uniform(0, 2 * np.pi, nk)
    amp = kd.mean() * r.standard_normal((n, nk))
    d0 = r.standard_normal(n)
    v0 = r.standard_normal(n) * wn.mean() * 0.3
    consistent = flavour.endswith("-consistent")
    ml = []
    if flavour.startswith("cdf"):
        X = 0.3 * bd.mean() * r.standard_normal((n, n))
        X[np.arange(n), np.arange(n)] = 0.0
        M, B, K = np.diag(mass), np.diag(bd) + X, np.diag(kd)
    else:
        M = np.diag(mass)
        B = _sym_mix(r, np, bd, 0.4)
        K = _sym_mix(r, np, kd, 0.4)
        if flavour.startswith("nm-massless"):
            ml = [0]
            M[0, 0] = 0.0
            B[0, :] = 0.0
            B[:, 0] = 0.0
    s = [i for i in range(n) if i not in ml]

    def forces(t):
        return sum(amp[:, [q]] * np.sin(om[q] * t + ph[q])[None, :] for q in range(nk))

    # exact reference problem (statically condensed when a massless DOF is present)
    if ml:
        Kmm, Kms = K[np.ix_(ml, ml)], K[np.ix_(ml, s)]
        Ksm, Kss = K[np.ix_(s, ml)], K[np.ix_(s, s)]
        Kr = Kss - Ksm @ np.linalg.solve(Kmm, Kms)
        ampr = amp[s] - Ksm @ np.linalg.solve(Kmm, amp[ml])
        Mr, Br = M[np.ix_(s, s)], B[np.ix_(s, s)]
    else:
        Kr, ampr, Mr, Br = K, amp, M, B
    lam = np.linalg.eigvals(np.linalg.solve(Mr, Kr))
    wmax = max(float(np.sqrt(np.abs(lam).max())), float(om.max()))
    Tend = 3 * 2 * np.pi / wmax
    F0 = forces(np.array([0.0]))[:, 0]
    Fd0 = sum(amp[:, q] * om[q] * np.cos(ph[q]) for q in range(nk))
    if ml:
        # a valid initial state satisfies the algebraic rows and their derivative
        v0[ml] = np.linalg.solve(Kmm, Fd0[ml] - Kms @ v0[s])
    # K u0 + B v0 = F(0): solve for u0 (all rows)
    dc = np.linalg.solve(K, F0 - B @ v0)
    if consistent:
        d0 = dc
    else:
        # make the start-up clearly inconsistent so that the first-order error term
        # dominates the ladder (a nearly consistent start shows the h -> h^2 crossover,
        # whose per-rung ratios are not monotone)
        sc = max(np.abs(dc).max(), np.abs(np.linalg.solve(K, np.abs(amp).sum(axis=1))).max())
        d0 = dc + sc * r.uniform(0.5, 1.0) * np.sign(r.standard_normal(n)) * \
            r.uniform(0.5, 1.0, n)
        if ml:
            d0[ml] = np.linalg.solve(Kmm, F0[ml] - Kms @ d0[s])
    errs_d, errs_v = [], []
    floor = 0.0
    for nst in RUNGS:
        h = Tend / nst
        t = np.arange(nst + 1) * h
        F = forces(t)
        if flavour.startswith("cdf"):
            order = 1 if flavour == "cdf-order1" else 0
            sol = ode.SolveCDF(mass, B, kd, h, order=order).tsolve(F, d0, v0)
        else:
            sol = ode.SolveNewmark(M, B, K, h).tsolve(F, d0, v0)
        de, ve = exact_sinusoidal(np, lti, Mr, Br, Kr, ampr, om, ph, t, d0[s], v0[s])
        if ml:
            dm = np.linalg.solve(Kmm, F[ml] - Kms @ de)
            dfull = np.zeros((n, nst + 1))
            dfull[s], dfull[ml] = de, dm
            errs_d.append(np.abs(sol.d - dfull).max() / np.abs(dfull).max())
        else:
            errs_d.append(np.abs(sol.d - de).max() / np.abs(de).max())
        errs_v.append(np.abs(sol.v[s] - ve).max() / np.abs(ve).max())
        if nst == RUNGS[-1]:
            # round-off floor of the finest rung, measured on the transcription
            if flavour.startswith("cdf"):
                a = (mass, B, kd, F, h, d0, v0)
                c0 = rec.cdf(*a, order=order, dps=None)
                c1 = rec.cdf(*a, order=order, dps=None, noise=(r, 1e-13))
            else:
                a = (M, B, K, F, h, d0, v0)
                c0 = rec.newmark(*a)
                c1 = rec.newmark(*a, noise=(r, 1e-13))
            fd = np.abs(c1["d"] - c0["d"]).max() / np.abs(c0["d"]).max()
            fv = np.abs(c1["v"] - c0["v"]).max() / np.abs(c0["v"]).max()
            # estimated actual round-off (1 eps-equivalent of the 1e-13 noise)
            floor = EPS / 1e-13 * max(fd, fv) + 1e-15
    need = 3.4 if flavour in ("nm-consistent", "nm-massless-consistent") else 1.7
    each = 2.0 if need == 3.4 else 1.2
    detail = {"flavour": flavour, "need": need, "errs_d": errs_d, "errs_v": errs_v,
              "roundoff_floor": floor}
    for nm, errs in (("d", errs_d), ("v", errs_v)):
        sh.count("mon:ladder-" + nm)
        # rungs dominated by round-off are dropped from the fine end
        last = len(errs) - 1
        while last > 0 and errs[last] < 1e3 * floor:
            last -= 1
        if last < 3:
            # round-off reaches into the ladder: the oracle declines (never a verdict)
            sh.refused += 1
            sh.count("refused:ladder-" + nm + "-fewer-than-3-halvings-above-roundoff")
            continue
        sh.count("mon:ladder-judged-" + nm)
        ratios = [errs[i] / errs[i + 1] for i in range(last)]
        # (i) bounded progress at every halving, from the coarsest rung on
        sh.count("mon:ladder-each-halving-" + nm)
        sh.worst("ladder each-halving need/ratio", each / min(ratios))
        if not min(ratios) >= each:
            sh.violation(f"ladder-each-halving-{nm}", case,
                         {**detail, "ratios": ratios, "need_each": each}, tags)
        # (ii) documented order on the three finest judged halvings (geometric mean)
        gm = (errs[last - 3] / errs[last]) ** (1.0 / 3.0)
        sh.count("mon:ladder-ratio-" + nm)
        sh.worst("ladder order need/ratio [%s]" % ("second" if need == 3.4 else "first"),
                 need / gm)
        if not gm >= need:
            sh.violation(f"ladder-ratio-{nm}", case,
                         {**detail, "ratios": ratios, "mean_ratio_3_finest": gm}, tags)

FLAVOURS = ["nm-inconsistent", "nm-consistent", "nm-massless-inconsistent",
            "nm-massless-consistent", "cdf-order1", "cdf-order0"]


def part_ladder(sh, np, ode, rec, lti, params):
    for ci in range(params["ncase"]):
        flavour = FLAVOURS[(ci + params["slice"]) % len(FLAVOURS)]
        r = core.rng(sh.seed, "C17", "ladder", params["slice"], ci)
        tags = {"part": "ladder", "flavour": flavour}
        case = {"part": "ladder", "slice": params["slice"], "index": ci,
                "flavour": flavour}
        sh.case(["ladder", params["slice"], ci, flavour], True, sample=case)
        sh.count("cell:ladder:" + flavour)
        try:
            run_ladder(sh, np, ode, rec, lti, r, flavour, case, tags)
        except Exception as e:
            _exc(sh, "ladder", case, tags, e)


# ------------------------------------------------------------------------------------
# part stab: boundedness over 2000 huge steps, identified amplification matrix
# ------------------------------------------------------------------------------------

STEPS = [1e-2, 1.0, 1e2, 1e4, 1e6]


def part_stab(sh, np, ode, rec, params):
    for ci in range(params["ncase"]):
        r = core.rng(sh.seed, "C17", "stab", params["slice"], ci)
        n = int(r.integers(1, 5))
        full = bool(r.random() < 0.6) and n >= 2
        mass = r.uniform(0.5, 5.0, n)
        wn = 2 * np.pi * r.uniform(1.0, 20.0, n)
        zeta = r.uniform(0.01, 0.5, n)
        kd, bd = mass * wn ** 2, 2 * zeta * mass * wn
        massless = bool(n >= 2 and r.random() < 0.35)
        if massless:
            mass[0] = 0.0
            if r.random() < 0.5:
                bd[0] = 0.0          # K-only row: roots exactly on the unit circle
        if full:
            M = np.diag(mass)
            B = _sym_mix(r, np, bd, 0.4)
            K = _sym_mix(r, np, kd, 0.4)
            if massless and bd[0] == 0.0:
                B[0, :] = 0.0
                B[:, 0] = 0.0
            args = (M, B, K)
        else:
            M, B, K = np.diag(mass), np.diag(bd), np.diag(kd)
            args = (mass, bd, kd)
        Tmin = 2 * np.pi / wn[mass > 0].max()
        tags = {"part": "stab", "n": n, "full": full, "massless": massless}
        for hr in STEPS:
            h = hr * Tmin
            case = {"part": "stab", "slice": params["slice"], "index": ci,
                    "h_over_Tmin": hr}
            tg = {**tags, "h_over_Tmin": hr}
            sh.case(["stab", params["slice"], ci, hr], True, sample=case)
            sh.count(f"cell:stab:h/T={hr:g}")
            if massless:
                sh.count("cell:stab:massless")
            try:
                ts = ode.SolveNewmark(*args, h)
                nt = 2001
                # (a) free response from d0
                d0 = r.standard_normal(n)
                sol = ts.tsolve(np.zeros((n, nt)), d0)
                # bounded in the ENERGY norm sqrt(u'Ku) (a massless DOF is slaved statically
                # to the others and may legitimately move more than 10 x max|d0| when its
                # own stiffness is small; the strain energy cannot grow)
                Ks_ = (K + K.T) / 2
                amp0 = float(np.sqrt(max(d0 @ Ks_ @ d0, 0.0)))
                sh.count("mon:stab-free-bounded")
                mx = float(np.sqrt(np.einsum("it,ij,jt->t", sol.d, Ks_, sol.d).max()))
                sh.worst("stab-free max|u|/(10*|u0|)", mx / (10 * amp0))
                if not mx <= 10 * amp0:
                    sh.violation("stab-free-bounded", case,
                                 {"max|u|": mx, "bound": 10 * amp0}, tg)
                # (b) step load from rest
                f = kd.mean() * r.standard_normal(n)
                sol = ts.tsolve(f[:, None] * np.ones((1, nt)))
                us_ = np.linalg.solve(K, f)
                stat = float(np.sqrt(max(us_ @ Ks_ @ us_, 0.0)))
                sh.count("mon:stab-step-bounded")
                mx = float(np.sqrt(np.einsum("it,ij,jt->t", sol.d, Ks_, sol.d).max()))
                sh.worst("stab-step max|u|/(10*static)", mx / (10 * stat))
                if not mx <= 10 * stat:
                    sh.violation("stab-step-bounded", case,
                                 {"max|u|": mx, "bound": 10 * stat}, tg)
                # (c) amplification matrix identified from executions: zero-force
                # runs from unit (u0, u-1) states plus runs kicked by one force sample;
                # every homogeneous triple u[j+1] = C1 u[j] + C0 u[j-1] (j >= 3) is one
                # normalised column of the regression
                ntp = 12
                Xs, Ys = [], []
                for k in range(3 * n):
                    e = np.zeros(n)
                    e[k % n] = 1.0
                    Z = np.zeros((n, ntp))
                    if k < n:
                        s2 = ts.tsolve(Z, e, None)             # (u0, u-1) = (e, e)
                    elif k < 2 * n:
                        s2 = ts.tsolve(Z, None, e / h)         # (u0, u-1) = (0, -e)
                    else:
                        Z[:, 1] = K @ e
                        s2 = ts.tsolve(Z)                      # kick at step 1
                    U = s2.d
                    for j in range(3, ntp - 1):
                        x = np.concatenate([U[:, j], U[:, j - 1]])
                        nx = np.abs(x).max()
                        if nx > 0:
                            Xs.append(x / nx)
                            Ys.append(U[:, j + 1] / nx)
                Xm, Ym = np.array(Xs).T, np.array(Ys).T
                svals = np.linalg.svd(Xm, compute_uv=False)
                condX = float(svals[0] / max(svals[2 * n - 1], 1e-300))
                sh.count("mon:stab-identification")
                if condX > 1e5:
                    sh.count("stab:identification-refused-cond>1e5")
                else:
                    Cm = np.linalg.lstsq(Xm.T, Ym.T, rcond=None)[0]
                    G = np.zeros((2 * n, 2 * n))
                    G[:n] = Cm.T
                    G[n:, :n] = np.eye(n)
                    rho = float(np.abs(np.linalg.eigvals(G)).max())
                    fit = float(np.abs(Cm.T @ Xm - Ym).max())
                    sh.worst("stab-fit-residual/1e-10", fit / 1e-10)
                    if fit > 1e-10:
                        sh.violation("stab-recurrence-not-linear-2-step", case,
                                     {"fit": fit, "condX": condX}, tg)
                    sh.count("mon:stab-spectral-radius")
                    sh.worst("stab (rho-1)/1e-9", (rho - 1.0) / 1e-9)
                    if not rho <= 1 + 1e-9:
                        sh.violation("stab-spectral-radius", case,
                                     {"rho": rho, "condX": condX}, tg)
                    # the identified matrix is the documented one
                    Gd = rec.newmark_amplification(M, B, K, h)
                    sh.check_close("stab-amplification-vs-doc", G[:n], Gd[:n],
                                   1e-13 * condX * 100 * max(1.0, np.abs(Gd[:n]).max()),
                                   case, tg)
            except Exception as e:
                _exc(sh, "stab", case, tg, e)


# ------------------------------------------------------------------------------------

def part_int_containers(sh, np, ode, params):
    """Whole-number problems in integer containers (int lists / int64 arrays) against the
    same numbers in float64 arrays: SolveNewmark and SolveCDF must not care."""
    import warnings
    nsl = PLAN[sh.tier]["nm"][0]
    ncase = 12 if sh.tier == "quick" else 150
    for q in range(ncase):
        idx = params["slice"] * ncase + q
        r = core.rng(sh.seed, "C17", "intc", idx)
        n = int(r.integers(1, 5))
        m = r.integers(1, 6, n)
        k = r.integers(50, 4000, n)
        b = r.integers(0, 12, n)
        h = float(1.0 / [64, 250, 1000][idx % 3])
        nt = int(r.integers(3, 30))
        F = r.integers(-50, 51, (n, nt))
        d0 = r.integers(-3, 4, n) if idx % 4 else None
        v0 = r.integers(-3, 4, n) if idx % 3 else None
        B = b
        if idx % 2 and n >= 2:
            B = np.diag(b) + np.diag(np.ones(n - 1, int), 1) + np.diag(np.ones(n - 1, int), -1)
        as_list = idx % 3 == 0
        conv = (lambda x: None if x is None else x.tolist()) if as_list else (lambda x: x)
        fl = lambda x: None if x is None else np.asarray(x, float)
        case = {"int_containers": idx, "n": n, "m": m.tolist(), "b": np.asarray(B).tolist(),
                "k": k.tolist(), "h": h, "nt": nt, "as_list": as_list}
        sh.case(["intc", idx], True, sample=case)
        for name, cls in (("newmark", ode.SolveNewmark), ("cdf", ode.SolveCDF)):
            tags = {"part": "intc", "solver": name}
            try:
                with warnings.catch_warnings():
                    warnings.simplefilter("ignore")
                    si = cls(conv(m), conv(np.asarray(B)), conv(k), h).tsolve(
                        F, d0=conv(d0), v0=conv(v0))
                    sf = cls(fl(m), fl(B), fl(k), h).tsolve(fl(F), d0=fl(d0), v0=fl(v0))
            except Exception as e:
                sh.violation("exception:int-containers", case, {"exc": repr(e)[:300]}, tags)
                continue
            for nm in ("d", "v", "a"):
                w = np.asarray(getattr(sf, nm))
                scale = np.abs(w).max(axis=1, keepdims=True) + 1e-300
                sh.check_close(f"int-containers:{name}:{nm}", np.asarray(getattr(si, nm)),
                               w, 1e-11 * scale * np.ones_like(w), case, tags)
        sh.count("intc:" + ("lists" if as_list else "int64"))


def run_shard(sh, params):
    import numpy as np
    from pyyeti import ode
    from vf.oracles import lti, recurrences as rec
    part = params["part"]
    if part == "nm":
        part_nm(sh, np, ode, rec, params)
        part_int_containers(sh, np, ode, params)
    elif part == "cdf":
        part_cdf(sh, np, ode, rec, params)
        part_cdf_pre_eig(sh, np, ode, rec, params)
    elif part == "ladder":
        part_ladder(sh, np, ode, rec, lti, params)
    elif part == "stab":
        part_stab(sh, np, ode, rec, params)


MONITORS = ["nm-d", "nm-v", "nm-a", "nm-z", "nm-no-z", "cdf-d", "cdf-v", "cdf-a",
            "cdf-pre_eig-d", "cdf-pre_eig-v", "cdf-pre_eig-a",
            "cdf-diag-bit-identical-d", "cdf-diag-bit-identical-v",
            "cdf-diag-bit-identical-a", "cdf-path-taken", "ladder-d", "ladder-v",
            "ladder-judged-d", "ladder-judged-v",
            "ladder-ratio-d", "ladder-ratio-v", "ladder-each-halving-d",
            "ladder-each-halving-v",
            "stab-free-bounded", "stab-step-bounded", "stab-spectral-radius",
            "stab-amplification-vs-doc"]
CELLS = (["nm:path:unc", "nm:path:full", "nm:m:none", "nm:m:1d", "nm:m:2d-diag",
          "nm:m:2d-full", "nm:massless:yes", "nm:massless-full", "nm:rf:leading",
          "nm:rf:trailing", "nm:rf:interleaved", "nm:rf:none", "nm:ic:zero", "nm:ic:d0",
          "nm:ic:v0", "nm:ic:d0v0", "nm:consistent:True", "nm:consistent:False",
          "nm:nnl:0", "nm:nnl:1", "nm:nnl:2", "nm:nnl:3", "nm:nl:cubic", "nm:nl:gap",
          "nm:nl:veldep", "nm:nt:2", "nm:nt:3", "nm:nt:4-30", "nm:nt:31-200",
          "cdf:order0", "cdf:order1", "cdf:diag:order0", "cdf:diag:order1",
          "cdf:rb:auto", "cdf:rb:explicit", "cdf:rf:interleaved", "cdf:ic:static",
          "cdf:via:class", "cdf:via:flag", "cdf:sym:True", "cdf:sym:False",
          "stab:massless"]
         + ["ladder:" + f for f in FLAVOURS] + [f"stab:h/T={h:g}" for h in STEPS])


def finalize(agg, tier):
    why = []
    c = agg["counters"]
    for k in MONITORS:
        if not c.get("mon:" + k):
            why.append(f"monitor {k} never evaluated")
    for k in CELLS:
        if not c.get("cell:" + k):
            why.append(f"coverage cell {k} empty")
    if c.get("mon:stab-spectral-radius", 0) < 0.8 * c.get("mon:stab-identification", 1):
        why.append("amplification matrix identified in fewer than 80 % of the probes")
    for q in "dv":
        if c.get("mon:ladder-judged-" + q, 0) < 0.9 * c.get("mon:ladder-" + q, 1):
            why.append(f"fewer than 90 % of the ladders judged for {q}")
    if agg.get("refused", 0) > 0.05 * max(1, agg.get("evaluations", 1)):
        why.append(f"oracle refused {agg.get('refused')} cases (> 5 %)")
    return why


def evidence_extra(agg, tier):
    return {"ladder_rungs_steps": RUNGS,
            "limit": "convergence is decided on a finite ladder (6 rungs) only"}
