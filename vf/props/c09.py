"""C09 -- parallel == serial, bit for bit (srs.srs, fdepsd.fdepsd).

No hook in the repository.  The multiprocessing start method is ``fork``: wrappers that
this module installs *in the shard process* on ``pyyeti.srs._dosrs``, ``_dosrs_nohist``,
``_dosrs_ic``, ``_dosrs_nohist_ic`` and ``pyyeti.fdepsd._dofde`` (same ``__module__`` /
``__qualname__``, so ``imap_unordered`` pickles them by reference) are what the forked pool
workers execute.  A wrapper

* sleeps ``delay(plan, seed, run, j)`` before and/or after the real body -- the delay plans
  force reversed / interleaved / one-straggler / all-together / random completion orders;
* appends ``pid j phase monotonic_ns`` to an ``O_APPEND`` log in the shard's temp dir.

``srs.createSharedArray`` (also what fdepsd uses) is wrapped to pre-fill the result arrays
with a signalling-NaN bit pattern, so a row that no worker wrote is distinguishable from a
legitimate zero (fdepsd's ``BinAmps`` relies on the zero fill and is left alone).

After each parallel call an offline checker reads the log (every ``j`` exactly one
enter/exit pair, tasks of one pid do not overlap, multiset of ``j`` == ``range(LF)``), looks
for surviving sentinels and compares every output with the serial result via ``tobytes()``.
"""
import os
import time

from vf import core

ID = "C09"
LEVEL = "exploration"
RULE = ("run i (seed-derived) = one serial + one parallel call of srs.srs (4 worker "
        "functions: with/without histories x with/without steady-state offsets) or "
        "fdepsd.fdepsd on a random record (200-5000 samples, 1-3 columns), 2-40 oscillator "
        "frequencies incl. 0 Hz and repeats, maxcpu in {1,2,3,5,16,None}, all stype/ic/time, "
        "under one of 7 injected delay plans (none, reversed, interleaved, straggler, long "
        "straggler, all-together, random).  distinct = distinct run digests; non-trivial = "
        "the parallel call really used a pool and >= 2 tasks were logged")
ASSUMPTIONS = [
    "fork start method: wrappers installed in the parent are what pool workers run "
    "(verified per run: the log must contain enter/exit records written by pids other "
    "than the shard's)",
    "completion orders are sampled (forced by injected sleeps), not enumerated",
    "CLOCK_MONOTONIC is system-wide on Linux, so timestamps of different workers order "
    "their events",
    "fdepsd's `parallel` and `ncpu` attributes describe the execution mode and are "
    "excluded from the comparison",
]
MIN_NONTRIVIAL = {"quick": 80, "thorough": 1200}
TIMEOUT = {"quick": 1800, "thorough": 14400}
NRUN = {"quick": 96, "thorough": 1500}
NSHARD = 4

KINDS = ("_dosrs_nohist", "_dosrs", "_dosrs_nohist_ic", "_dosrs_ic", "_dofde")
PLANS = ("none", "reversed", "interleaved", "straggler", "straggler-long", "together",
         "random")
MAXCPU = (1, 2, 3, 5, 16, None)
STYPES = ("absacce", "relacce", "reldisp", "relvelo", "pvelo", "pacce")
IC_STYPES = ("absacce", "reldisp", "pvelo", "pacce")
SENT = 0x7FF4DEADBEEF0C09          # signalling NaN (quiet bit 51 clear), payload tagged
QUIET = 1 << 51

# state shared with forked workers (set in the parent before each parallel call)
PLAN = {"mode": "none", "seed": 0, "run": 0, "LF": 0, "delta": 0.0, "log": None}
_FD = {}
_CSA = {"count": 0}


def shards(tier, seed):
    return [{"slice": s, "nslice": NSHARD} for s in range(NSHARD)]


def _ptp(resp):
    return resp.max(axis=0) - resp.min(axis=0)


# ------------------------------------------------------------------------------------
# worker-side instrumentation
# ------------------------------------------------------------------------------------

def _log(j, phase):
    path = PLAN["log"]
    if path is None:
        return
    pid = os.getpid()
    fd = _FD.get((pid, path))
    if fd is None:
        fd = _FD[(pid, path)] = os.open(path, os.O_WRONLY | os.O_APPEND | os.O_CREAT,
                                        0o644)
    os.write(fd, b"%d %d %s %d\n" % (pid, j, phase, time.monotonic_ns()))


def _u(seed, run, j, salt):
    """deterministic uniform [0,1) from (seed, run, j, salt) without numpy state"""
    import hashlib
    h = hashlib.sha256(repr((seed, run, j, salt)).encode()).digest()
    return int.from_bytes(h[:7], "little") / float(1 << 56)


def delays(plan, j):
    """(seconds before the body, seconds after the body) for task j."""
    mode, d, LF = plan["mode"], plan["delta"], plan["LF"]
    if mode == "none":
        return 0.0, 0.0
    if mode == "reversed":
        return min(LF - 1 - j, 15) * d * 0.5, 0.0
    if mode == "interleaved":
        return (3 * d if j % 2 == 0 else 0.0), (0.0 if j % 2 == 0 else d)
    if mode in ("straggler", "straggler-long"):
        jstar = int(_u(plan["seed"], plan["run"], -1, "star") * LF)
        if j != jstar:
            return 0.0, 0.0
        return (0.7, 0.1) if mode == "straggler-long" else (25 * d, 10 * d)
    if mode == "together":
        slot = int(8 * d * 1e9)
        now = time.monotonic_ns()
        return (slot - now % slot) / 1e9, 0.0
    if mode == "random":
        return (3 * d * _u(plan["seed"], plan["run"], j, "pre"),
                3 * d * _u(plan["seed"], plan["run"], j, "post"))
    raise ValueError(mode)


def _wrap_worker(mod, name):
    orig = getattr(mod, name)

    def worker(args):
        j = int(args[0])
        _log(j, b"enter")
        pre, post = delays(PLAN, j)
        if pre > 0:
            time.sleep(pre)
        try:
            return orig(args)
        finally:
            if post > 0:
                time.sleep(post)
            _log(j, b"exit")
    worker.__module__ = mod.__name__
    worker.__name__ = worker.__qualname__ = name
    worker._vf_orig = orig
    setattr(mod, name, worker)


def _wrap_csa(srs):
    import numpy as np
    import sys
    orig = srs.createSharedArray

    def createSharedArray(dimensions, *a, **k):
        arr = orig(dimensions, *a, **k)
        caller = sys._getframe(1).f_code.co_name
        idx = _CSA["count"]
        _CSA["count"] += 1
        # fdepsd: ASV (0), BinAmps (1, accumulated into -> needs its zeros), Count (2)
        if not (caller == "fdepsd" and idx == 1):
            np.frombuffer(arr, dtype=np.uint64)[:] = SENT
            _CSA.setdefault("filled", []).append((caller, idx, tuple(dimensions)))
        return arr
    createSharedArray.__module__ = srs.__name__
    srs.createSharedArray = createSharedArray


HOOKED = set()


def install():
    """Wrap the worker functions that exist.  If the library's workers have been renamed
    or merged the event-log monitors have nothing to observe for those runs (counted as
    `hook-missing`); serial-versus-parallel byte equality, the deciding oracle, still
    applies to every run."""
    from pyyeti import srs, fdepsd
    if not HOOKED and getattr(getattr(srs, "_dosrs", None), "_vf_orig", None) is None:
        for name in KINDS[:4]:
            if callable(getattr(srs, name, None)):
                _wrap_worker(srs, name)
                HOOKED.add(name)
        if callable(getattr(fdepsd, "_dofde", None)):
            _wrap_worker(fdepsd, "_dofde")
            HOOKED.add("_dofde")
        _wrap_csa(srs)
    return srs, fdepsd


# ------------------------------------------------------------------------------------
# offline checker over the event log
# ------------------------------------------------------------------------------------

def check_log(path, LF, parent_pid):
    """Returns (problems, facts).  problems: list of (kind, detail)."""
    ev = []
    if os.path.exists(path):
        for line in open(path, "rb").read().split(b"\n"):
            if not line:
                continue
            p = line.split()
            if len(p) != 4:
                return [("log-garbled", {"line": line[:80]})], {}
            ev.append((int(p[3]), int(p[0]), int(p[1]), p[2].decode()))
    ev.sort()
    problems = []
    enter, exit_ = {}, {}
    for ts, pid, j, ph in ev:
        d = enter if ph == "enter" else exit_
        d.setdefault(j, []).append((ts, pid))
    js = sorted(enter)
    multiset = sorted(j for j in enter for _ in enter[j])
    if multiset != list(range(LF)):
        missing = sorted(set(range(LF)) - set(enter))
        dup = sorted(j for j in enter if len(enter[j]) > 1)
        extra = sorted(set(enter) - set(range(LF)))
        problems.append(("log-task-multiset", {"missing": missing[:20], "twice": dup[:20],
                                               "foreign": extra[:20], "LF": LF}))
    for j in sorted(set(enter) | set(exit_)):
        e, x = enter.get(j, []), exit_.get(j, [])
        if len(e) != 1 or len(x) != 1 or e[0][1] != x[0][1] or not e[0][0] <= x[0][0]:
            problems.append(("log-enter-exit-pair", {"j": j, "enter": e[:3],
                                                     "exit": x[:3]}))
    # tasks of one pid do not overlap
    per = {}
    for j in js:
        if len(enter[j]) == 1 and len(exit_.get(j, [])) == 1:
            per.setdefault(enter[j][0][1], []).append((enter[j][0][0], exit_[j][0][0], j))
    for pid, iv in per.items():
        iv.sort()
        for a, b in zip(iv, iv[1:]):
            if b[0] < a[1]:
                problems.append(("log-overlap", {"pid": pid, "tasks": [a[2], b[2]]}))
    # facts
    order = tuple(j for ts, pid, j, ph in ev if ph == "exit")
    pids = []
    for ts, pid, j, ph in ev:
        if pid not in pids:
            pids.append(pid)
    t2p = tuple(pids.index(enter[j][0][1]) if j in enter else -1 for j in range(LF))
    live, peak = set(), 0
    for ts, pid, j, ph in ev:
        if ph == "enter":
            live.add(pid)
            peak = max(peak, len(live))
        else:
            live.discard(pid)
    facts = {"order": order, "task2pid": t2p, "workers": len(pids), "peak": peak,
             "in_parent": parent_pid in pids, "events": len(ev)}
    return problems, facts


def has_sentinel(a):
    import numpy as np
    a = np.ascontiguousarray(a)
    if a.dtype != np.float64 or a.size == 0:
        return False
    bits = a.view(np.uint64)
    return bool(np.any((bits & ~np.uint64(QUIET)) == np.uint64(SENT & ~QUIET)))


# ------------------------------------------------------------------------------------
# run generation
# ------------------------------------------------------------------------------------

def gen_run(seed, i, tier):
    import numpy as np
    r = core.rng(seed, "C09", "run", i)
    kind = KINDS[i % 5]
    plan = PLANS[(i + 3 * seed) % 7]
    maxcpu = MAXCPU[(i // 5 + seed) % 6]
    n = int(r.integers(200, 5001))
    LF = int(r.integers(2, 41))
    sr = float(10 ** r.uniform(2, 3.5))
    ratios = np.exp(r.uniform(np.log(3.0), np.log(500.0), LF))
    freq = sr / ratios
    if r.random() < 0.5:                               # repeated frequencies
        k = int(r.integers(1, max(2, LF // 2)))
        freq[r.integers(0, LF, k)] = freq[r.integers(0, LF, k)]
    Q = float((0.7, 5.0, 10.0, 25.0, 50.0)[int(r.integers(0, 5))])
    delta = (0.004 if tier == "quick" else float(r.choice([0.002, 0.01, 0.03])))
    run = {"i": i, "kind": kind, "plan": plan, "maxcpu": maxcpu, "n": n, "LF": LF,
           "sr": sr, "Q": Q, "delta": delta}
    if kind == "_dofde":
        run["tie"] = bool((i // 5) % 2 == 0)
        run["resp"] = "absacce" if run["tie"] or (i // 10) % 2 == 0 else "pvelo"
        if run["tie"]:
            # integer-valued record, no preprocessing, oscillators so far above the
            # sample rate that exp(-zeta wn dT) underflows: the "response" is the record
            # itself and cycle amplitudes fall exactly on bin boundaries (ties of >=)
            run["Q"] = 0.5001
            run["sr"] = sr = 10.0
            nhi = max(1, LF // 3)
            freq[:nhi] = sr * r.uniform(150.0, 400.0, nhi)
            freq[nhi:] = sr / ratios[nhi:]
            run["nbins"] = int((2, 4, 8)[int(r.integers(0, 3))])
            sg = r.integers(-4, 5, n).astype(float)
            k0 = int(r.integers(5, n - 8))
            sg[k0:k0 + 3] = (-4.0, 4.0, -4.0)         # largest cycle amplitude is 4
            if (i // 10) % 2 == 1:
                # the global extreme is the LATER, slightly larger of two nearly equal
                # adjacent samples (difference far below the reversal tolerance): the
                # reported SRS is the maximum of the response, not of the reversal points
                k1 = int(r.integers(5, n - 8))
                while abs(k1 - k0) < 6:
                    k1 = int(r.integers(5, n - 8))
                sg[k1:k1 + 2] = (5.0, 5.0 + 3e-9)
                run["near_tie_extreme"] = True
            run["sig"] = sg
            run["opts"] = dict(detrend=False, winends=None, hpfilter=None,
                               rolloff="none")
        else:
            run["nbins"] = int((1, 2, 5, 300)[(i // 5) % 4])
            run["sig"] = r.standard_normal(n) + 0.3
            if (i // 5) % 6 == 3:
                # a dead channel: every per-frequency task fails (no cycles to count);
                # serial raises, so the pool must not hand back its zero-filled tables
                run["sig"] = np.zeros(n)
                run["expect_raise"] = True
                # (few workers: with a dozen workers all failing at once CPython's
                # Pool.terminate() itself stalls now and then -- 1 in 25 on the unchanged
                # tree, outside what the property states)
                run["maxcpu"] = 2
            run["opts"] = dict(rolloff=("lanczos", "none", "fft")[int(r.integers(0, 3))],
                               T0=float(r.choice([60.0, 17.0])))
        run["freq"] = freq
        return run
    ncol = int(r.integers(1, 4))
    run["mode"] = "yes"
    if kind.startswith("_dosrs_nohist") and (i // 5) % 4 == 3:
        # parallel='auto' goes parallel by itself for > 50000 samples without histories
        run["mode"], ncol = "auto", 3
        run["n"] = n = int(r.integers(17000, 20001))
    sig = r.standard_normal((n, ncol)) + r.uniform(-2, 2, ncol)
    # the record in other containers: raw ADC counts (int64 / int16), float32, Fortran
    # order, a strided view -- serial and parallel must copy them into the workers alike
    cont = ("f8", "f8", "i8", "f4", "F", "strided", "i2")[(i // 3) % 7]
    if cont in ("i8", "i2"):
        sig = np.round(sig * 300).astype({"i8": np.int64, "i2": np.int16}[cont])
    elif cont == "f4":
        sig = sig.astype(np.float32)
    elif cont == "F":
        sig = np.asfortranarray(sig)
    elif cont == "strided":
        big = np.zeros((2 * n, 2 * ncol))
        big[::2, ::2] = sig
        sig = big[::2, ::2]
    run["container"] = cont
    if kind.endswith("_ic"):
        ic = "steady"
        stype = IC_STYPES[(i // 5) % 4]
    else:
        ic = ("zero", "shift", "mshift", "steady")[(i // 5) % 4]
        stype = STYPES[(i // 5 + i // 20) % 6]
        if ic == "steady" and stype in IC_STYPES:
            stype = ("relacce", "relvelo")[(i // 5) % 2]
    if not (ic == "steady" and stype in ("reldisp", "pvelo")) and r.random() < 0.4:
        freq[int(r.integers(0, LF))] = 0.0             # 0 Hz oscillator
    peak = ("abs", "pos", "neg", "poss", "negs", "rms", "callable")[int(r.integers(0, 7))]
    run.update(freq=freq, ncol=ncol, sig=sig if not (ncol == 1 and r.random() < 0.5)
               else sig[:, 0], ic=ic, stype=stype, peak=peak,
               time=("primary", "total", "residual")[(i // 5 + i // 15) % 3],
               getresp=kind in ("_dosrs", "_dosrs_ic"),
               eqsine=bool(r.random() < 0.3),
               rolloff=("none", "lanczos")[int(r.random() < 0.3)])
    return run


# ------------------------------------------------------------------------------------

def _cmp_bytes(sh, kind, got, want, case, tags):
    import numpy as np
    import pandas as pd
    sh.count("mon:" + kind)

    def parts(x):
        if isinstance(x, pd.DataFrame):
            return [np.ascontiguousarray(x.values), np.asarray(x.index),
                    np.asarray(x.columns)]
        if isinstance(x, pd.Series):
            return [np.ascontiguousarray(x.values), np.asarray(x.index)]
        return [np.ascontiguousarray(np.asarray(x))]
    pg, pw = parts(got), parts(want)
    same = type(got) is type(want) and len(pg) == len(pw) and all(
        a.shape == b.shape and a.dtype == b.dtype and a.tobytes() == b.tobytes()
        for a, b in zip(pg, pw))
    if not same:
        a, b = pg[0], pw[0]
        detail = {"type_got": type(got).__name__, "type_want": type(want).__name__,
                  "shape_got": a.shape, "shape_want": b.shape}
        if a.shape == b.shape and a.dtype.kind == "f" and b.dtype.kind == "f":
            ne = a.view(np.uint64) != b.view(np.uint64) if a.dtype == np.float64 else a != b
            idx = np.argwhere(ne)
            detail.update(ndiff=int(ne.sum()), first_index=idx[0].tolist() if len(idx)
                          else None)
            if len(idx):
                k = tuple(idx[0])
                detail.update(got=a[k], want=b[k])
        sh.violation(kind, case, detail, tags)
    return same


class _CallTimeout(Exception):
    pass


def _guarded(fn, secs=300):
    """Run fn() under a generous wall-clock watchdog (a pool whose workers died waits
    for ever).  Its firing is INCONCLUSIVE, never a verdict on the library."""
    import signal

    def handler(signum, frame):
        raise _CallTimeout("no answer within %d s" % secs)
    old = signal.signal(signal.SIGALRM, handler)
    signal.alarm(secs)
    try:
        return fn()
    finally:
        signal.alarm(0)
        signal.signal(signal.SIGALRM, old)


def run_one(sh, srs, fdepsd, run):
    import numpy as np
    kind, LF = run["kind"], run["LF"]
    freq = run["freq"]
    case = {"seed": sh.seed, "i": run["i"], "kind": kind, "plan": run["plan"],
            "maxcpu": run["maxcpu"], "n": run["n"], "LF": LF, "sr": run["sr"],
            "Q": run["Q"], "freq": freq, "parallel": run.get("mode", "yes")}
    for k in ("ic", "stype", "peak", "time", "getresp", "eqsine", "rolloff", "ncol",
              "resp", "nbins", "tie", "opts"):
        if k in run:
            case[k] = run[k]
    tags = {"kind": kind, "plan": run["plan"], "maxcpu": run["maxcpu"],
            "getresp": run.get("getresp"), "ic": run.get("ic"),
            "stype": run.get("stype", run.get("resp")), "tie": run.get("tie", False),
            "has_f0": bool((freq == 0).any()),
            "repeats": bool(np.unique(freq).size < freq.size)}
    desc = {"i": run["i"], "seed": sh.seed}

    if kind == "_dofde":
        def call(parallel):
            return fdepsd.fdepsd(run["sig"].copy(), run["sr"], freq, run["Q"],
                                 resp=run["resp"], nbins=run["nbins"], parallel=parallel,
                                 maxcpu=run["maxcpu"], **run["opts"])
    else:
        pk = _ptp if run["peak"] == "callable" else run["peak"]

        def call(parallel):
            return srs.srs(run["sig"].copy(), run["sr"], freq, run["Q"], ic=run["ic"],
                           stype=run["stype"], peak=pk, rolloff=run["rolloff"],
                           eqsine=run["eqsine"], time=run["time"],
                           getresp=run["getresp"], parallel=parallel,
                           maxcpu=run["maxcpu"])
    # -- serial reference -----------------------------------------------------------
    PLAN.update(mode="none", log=None)
    try:
        ref = call("no")
    except Exception as e:
        if run.get("expect_raise"):
            # same outcome demanded of the parallel path: it raises as well
            sh.case(desc, nontrivial=True, sample=case)
            sh.count("mon:failure-propagates")
            sh.count("cell:serial-raises")
            try:
                out = _guarded(lambda: call(run.get("mode", "yes")), 60)
            except _CallTimeout:
                # neither "raised" nor "returned tables": no verdict for this run
                sh.count("cell:dead-channel-call-stalled")
                return
            except Exception as e2:
                if type(e2) is not type(e):
                    sh.count("cell:failure-propagates-other-type")
                return
            sh.violation("failure-propagates", case,
                         {"serial": repr(e)[:200], "parallel": "returned " + type(out).__name__},
                         tags)
            return
        sh.case(desc, nontrivial=False, sample=case)
        sh.violation("harness-exception", case, {"where": "serial", "exc": repr(e)[:400]},
                     tags)
        return
    if run.get("expect_raise"):
        sh.count("cell:expected-raise-did-not-raise")
    # -- parallel under the delay plan ----------------------------------------------
    log = os.path.join(os.getcwd(), "c09_%d.log" % run["i"])
    if os.path.exists(log):
        os.unlink(log)
    PLAN.update(mode=run["plan"], seed=sh.seed, run=run["i"], LF=LF,
                delta=run["delta"], log=log)
    _CSA["count"] = 0
    _CSA["filled"] = []
    t0 = time.monotonic()
    try:
        par = _guarded(lambda: call(run.get("mode", "yes")))
    except _CallTimeout:
        sh.case(desc, nontrivial=False, sample=case)
        sh.count("watchdog:parallel-call-timeout"); sh.count("watchdog-detail:%s:%s:i=%d" % (kind, "dead" if run.get("expect_raise") else run.get("plan"), run["i"]))
        return
    except Exception as e:
        sh.case(desc, nontrivial=True, sample=case)
        sh.violation("exception:parallel", case, {"exc": repr(e)[:400]}, tags)
        return
    finally:
        PLAN.update(mode="none", log=None)
    wall = time.monotonic() - t0

    problems, facts = check_log(log, LF, os.getpid())
    try:
        os.unlink(log)
    except OSError:
        pass
    pooled = facts.get("events", 0) > 0 and not facts.get("in_parent", True)
    sh.case(desc, nontrivial=bool(pooled and len(facts.get("order", ())) >= 2),
            sample=case)
    sh.count("runs")
    sh.count("kind:" + kind)
    sh.count("plan:" + run["plan"])
    sh.count("maxcpu:%s" % run["maxcpu"])
    sh.count("parallel:" + run.get("mode", "yes"))
    for k in ("ic", "stype", "time", "resp"):
        if k in run:
            sh.count("%s:%s" % (k, run[k]))
    if kind != "_dofde":
        sh.count("getresp:%s" % run["getresp"])
    else:
        sh.count("nbins:%s" % ("small" if run["nbins"] < 50 else "large"))
        if run["tie"]:
            sh.count("fde:tie-family")
    if tags["has_f0"]:
        sh.count("freq:0Hz")
    if tags["repeats"]:
        sh.count("freq:repeated")
    sh.count("csa-filled", len(_CSA.get("filled", [])))

    if kind in HOOKED:
        sh.count("mon:log-check")
        if not pooled:
            sh.violation("no-pool-observed", case, {"facts": {k: v for k, v in facts.items()
                                                              if k != "order"}}, tags)
        for knd, det in problems:
            sh.violation(knd, case, det, tags)
    else:
        sh.count("cell:hook-missing:" + kind)
        facts = {}
    if facts:
        sh.count("ord#" + core.digest([LF, list(facts["order"])]))
        sh.count("t2p#" + core.digest([LF, list(facts["task2pid"])]))
        sh.count("workers-seen:%d" % facts["workers"])
        sh.count("peak-concurrency:%d" % facts["peak"])
        order = list(facts["order"])
        if order != sorted(order):
            sh.count("order:not-ascending")
        w = min(facts["workers"], LF)
        if w >= 2 and order[:w] == sorted(order[:w], reverse=True):
            sh.count("order:first-wave-reversed")
        if run["plan"].startswith("straggler") and order and facts["workers"] >= 2:
            jstar = int(_u(sh.seed, run["i"], -1, "star") * LF)
            if order[-1] == jstar:
                sh.count("order:straggler-last")

    # -- sentinels + byte equality ---------------------------------------------------
    if kind == "_dofde":
        names = sorted(vars(ref))
        sh.check_equal("fde-namespace", sorted(vars(par)), names, case, tags)
        sent = []
        for nm in names:
            a, b = getattr(par, nm, None), getattr(ref, nm)
            if nm in ("parallel", "ncpu"):
                continue
            if isinstance(b, (str, float, int)) and not hasattr(b, "shape"):
                sh.check_equal("fde-%s" % nm, a, b, case, tags)
                continue
            _cmp_bytes(sh, "fde-%s-bytes" % nm, a, b, case, tags)
            vals = getattr(a, "values", a)
            if has_sentinel(np.asarray(vals)):
                sent.append(nm)
        sh.count("mon:sentinel")
        if sent:
            sh.violation("sentinel-survived", case, {"where": sent}, tags)
        sh.check_equal("fde-parallel-flag", [par.parallel, ref.parallel], ["yes", "no"],
                       case, tags)
        if run["tie"]:
            _tie_coverage(sh, np, run, ref)
    else:
        if run["getresp"]:
            shp, rp = par
            shs, rs = ref
        else:
            shp, shs, rp, rs = par, ref, None, None
        sent = []
        _cmp_bytes(sh, "srs-sh-bytes", shp, shs, case, tags)
        if has_sentinel(shp):
            sent.append("sh")
        if rp is not None:
            _cmp_bytes(sh, "srs-hist-bytes", rp["hist"], rs["hist"], case, tags)
            _cmp_bytes(sh, "srs-t-bytes", rp["t"], rs["t"], case, tags)
            sh.check_equal("srs-sr", float(rp["sr"]), float(rs["sr"]), case, tags)
            if has_sentinel(rp["hist"]):
                sent.append("hist")
        sh.count("mon:sentinel")
        if sent:
            sh.violation("sentinel-survived", case, {"where": sent}, tags)
    sh.count("parallel-call-wall-ms", int(wall * 1000))

    # -- history: a result handed out earlier must not change when the pool machinery is
    # used again for a request of the SAME shape (shared segments reused between calls)
    if run["i"] % 2 == 0:
        if kind == "_dofde":
            held = {nm: np.asarray(getattr(getattr(par, nm), "values", getattr(par, nm)))
                    for nm in ("psd", "peakamp", "binamps", "count", "srs", "var")
                    if hasattr(par, nm)}
        else:
            held = {"sh": np.asarray(shp)}
            if rp is not None:
                held["hist"] = np.asarray(rp["hist"])
        snaps = {nm: a.tobytes() for nm, a in held.items()}
        sig0 = run["sig"]
        run2 = dict(run, sig=np.ascontiguousarray(sig0[::-1]) * 0.5 + 1.0)
        keep = run["sig"]
        run["sig"] = run2["sig"]
        try:
            _guarded(lambda: call(run.get("mode", "yes")))
        except _CallTimeout:
            sh.count("watchdog:parallel-call-timeout"); sh.count("watchdog-detail:%s:%s:i=%d" % (kind, "dead" if run.get("expect_raise") else run.get("plan"), run["i"]))
        except Exception as e:
            sh.violation("exception:parallel-second-call", case, {"exc": repr(e)[:400]},
                         tags)
        finally:
            run["sig"] = keep
        sh.count("mon:earlier-result-unmutated")
        changed = [nm for nm, a in held.items() if a.tobytes() != snaps[nm]]
        if changed:
            sh.violation("earlier-result-unmutated", case, {"changed": changed}, tags)


def _tie_coverage(sh, np, run, ref):
    """Coverage only: does a cycle amplitude of the record (== the response of the
    ultra-high oscillators) sit exactly on a counting-bin boundary?"""
    from vf.oracles import astm_rainflow
    x = run["sig"]
    d = np.diff(x)
    keep = [0]
    last = 0.0
    for k in range(1, x.size):
        if d[k - 1] == 0:
            continue
        if last != 0.0 and (d[k - 1] > 0) == (last > 0):
            keep[-1] = k
        else:
            keep.append(k)
        last = d[k - 1]
    amps = np.array([c[0] for c in astm_rainflow.rainflow(x[keep])])
    hi = run["freq"] > 100 * run["sr"]
    rows = ref.binamps.values[hi]
    if rows.size and np.all(ref.srs.values[hi] == np.abs(x).max()):
        sh.count("fde:response-equals-record")
        if np.isin(amps, rows[0][1:]).any():
            sh.count("fde:tie-amplitude-on-bin-edge")


def run_shard(sh, params):
    import warnings
    import numpy as np
    warnings.simplefilter("ignore")
    np.seterr(all="ignore")
    srs, fdepsd = install()
    only = params.get("only")
    for i in range(params["slice"], NRUN[sh.tier], params["nslice"]):
        if only is not None and i not in only:
            continue
        run = gen_run(sh.seed, i, sh.tier)
        try:
            run_one(sh, srs, fdepsd, run)
        except Exception:
            import traceback
            sh.violation("harness-exception", {"seed": sh.seed, "i": i},
                         {"exc": traceback.format_exc()[-1500:]}, {})


MANDATORY = (["runs", "mon:log-check", "mon:sentinel", "mon:earlier-result-unmutated",
              "mon:failure-propagates", "mon:srs-sh-bytes",
              "mon:srs-hist-bytes", "mon:srs-t-bytes", "mon:fde-psd-bytes",
              "mon:fde-count-bytes", "mon:fde-binamps-bytes", "mon:fde-srs-bytes",
              "mon:fde-var-bytes", "mon:fde-di_sig-bytes", "freq:0Hz", "freq:repeated",
              "getresp:True", "getresp:False", "nbins:small", "nbins:large",
              "parallel:auto", "parallel:yes",
              "fde:tie-family", "fde:tie-amplitude-on-bin-edge", "resp:absacce", "resp:pvelo", "order:not-ascending",
              "csa-filled"]
             + ["kind:" + k for k in KINDS] + ["plan:" + p for p in PLANS]
             + ["maxcpu:%s" % m for m in MAXCPU]
             + ["ic:" + k for k in ("zero", "shift", "mshift", "steady")]
             + ["stype:" + s for s in STYPES]
             + ["time:" + t for t in ("primary", "total", "residual")])


def finalize(agg, tier):
    c = agg["counters"]
    why = [f"coverage cell / monitor {k} never reached" for k in MANDATORY if not c.get(k)]
    if not any(k.startswith("peak-concurrency:") and int(k.split(":")[1]) >= 2 for k in c):
        why.append("no run with two workers busy at the same time was observed")
    if c.get("watchdog:parallel-call-timeout"):
        why.append("%d parallel call(s) gave no answer within the 300 s watchdog"
                   % c["watchdog:parallel-call-timeout"])
    return why


def evidence_extra(agg, tier):
    c = agg["counters"]
    peak = [int(k.split(":")[1]) for k in c if k.startswith("peak-concurrency:")]
    wk = [int(k.split(":")[1]) for k in c if k.startswith("workers-seen:")]
    return {"parallel_runs": c.get("runs", 0),
            "distinct_completion_orders": sum(1 for k in c if k.startswith("ord#")),
            "distinct_task_to_pid_maps": sum(1 for k in c if k.startswith("t2p#")),
            "runs_with_non_ascending_completion": c.get("order:not-ascending", 0),
            "runs_with_reversed_first_wave": c.get("order:first-wave-reversed", 0),
            "runs_with_straggler_last": c.get("order:straggler-last", 0),
            "max_workers_seen_concurrently": max(peak) if peak else 0,
            "max_worker_processes_in_one_run": max(wk) if wk else 0,
            "result_arrays_prefilled_with_sentinel": c.get("csa-filled", 0),
            "coverage_cells": {k: v for k, v in sorted(c.items())
                               if not k.startswith(("mon:", "violation:", "ord#",
                                                    "t2p#"))}}
