"""Source/Load substructures and their PHYSICALLY coupled system (C15).  No pyyeti imports.

Model kit
---------
Nodes carry 6 DOF (ux, uy, uz, rx, ry, rz) at a position p.  A joint element between
nodes i and j acts at a point c: the motion of node i seen at c is ``D_i q_i`` with
``D_i = [[I, -skew(c - p_i)], [0, I]]``; the element force depends on the relative motion
``D_j q_j - D_i q_i`` through a 6x6 matrix (stiffness or damping), so a rigid motion of
the whole structure produces no element force: K and B have exactly the rigid-body null
space.  Lumped 6x6 masses (mass, inertia, cg offset) sit on the nodes.  ``dim`` selects the
DOF kept per node: 1 -> (ux), 3 -> (ux, uy, rz) with nodes in the z = 0 plane, 6 -> all;
restriction of a 3-D model to those DOF is again a valid model with 1 / 3 / 6 rigid-body
modes.

Coupling
--------
``coupled_dual``: [Zs 0 Ts^T; 0 Zl -Tl^T; Ts -Tl 0] [xs; xl; lam] = [fs; 0; 0] with
Z = -W^2 M + iW B + K; lam is the force the Source applies TO the Load at the interface
(the Load equation reads Zl xl = Tl^T lam).  Works for any recovery matrices (modal
coordinates included).
``coupled_primal``: for selection-type boundaries the interface DOF are merged and the
assembled system is solved; the interface force is recovered from the Load's own dynamic
stiffness, F = (Zl xl)[boundary rows].
Interface acceleration A = -W^2 (boundary displacement).
"""
import numpy as np

EPS = np.finfo(float).eps
DOFSEL = {1: [0], 3: [0, 1, 5], 6: [0, 1, 2, 3, 4, 5]}


def skew(v):
    return np.array([[0, -v[2], v[1]], [v[2], 0, -v[0]], [-v[1], v[0], 0.0]])


def dmat(p, c):
    D = np.eye(6)
    D[:3, 3:] = -skew(np.asarray(c, float) - np.asarray(p, float))
    return D


def assemble(pos, elements, dim):
    """elements: list of (i, j, c, X6) -> global matrix on the kept DOF (node-major)."""
    N = len(pos)
    G = np.zeros((6 * N, 6 * N))
    for (i, j, c, X) in elements:
        Bm = np.zeros((6, 6 * N))
        Bm[:, 6 * i:6 * i + 6] = -dmat(pos[i], c)
        Bm[:, 6 * j:6 * j + 6] = dmat(pos[j], c)
        G += Bm.T @ X @ Bm
    keep = kept(N, dim)
    return G[np.ix_(keep, keep)]


def kept(N, dim):
    return np.array([6 * i + d for i in range(N) for d in DOFSEL[dim]])


def mass_matrix(pos, masses, dim):
    """masses: list of (m, I3 (3x3 SPD), r (cg offset from the node)) per node."""
    N = len(pos)
    G = np.zeros((6 * N, 6 * N))
    for i, (m, I3, r) in enumerate(masses):
        # rigid lump with cg at p + r: T maps node motion to cg motion
        T = np.eye(6)
        T[:3, 3:] = -skew(r)
        Mcg = np.zeros((6, 6))
        Mcg[:3, :3] = m * np.eye(3)
        Mcg[3:, 3:] = I3
        G[6 * i:6 * i + 6, 6 * i:6 * i + 6] = T.T @ Mcg @ T
    keep = kept(N, dim)
    return G[np.ix_(keep, keep)]


def rigid_modes(pos, ref, dim):
    """Rigid-body modes of the kept DOF for unit motions of the kept DOF of a reference
    point `ref` (columns: the `dim` rigid-body motions)."""
    N = len(pos)
    R = np.zeros((6 * N, 6))
    for i, p in enumerate(pos):
        R[6 * i:6 * i + 6] = dmat(ref, p)      # motion at p due to motion of `ref`
    keep = kept(N, dim)
    return R[np.ix_(keep, DOFSEL[dim])]


def solve_refined(A, rhs, iters=8, extended=False):
    """Dense solve with Ruiz equilibration and iterative refinement, residual and solution
    carried in extended precision (complex256): the result is accurate to a few eps (of
    double) element-wise relative to max|x| as long as cond(equilibrated A)*eps < 1, so
    the reference's own round-off (badly scaled saddle-point / mixed modal-physical
    systems) stays out of the comparison.  Raises LinAlgError when the refinement does not
    converge (the caller refuses the case)."""
    from scipy.linalg import lu_factor, lu_solve
    A = np.asarray(A, complex)
    rhs = np.asarray(rhs, complex)
    n = A.shape[0]
    d1 = np.ones(n)
    d2 = np.ones(n)
    As = A.copy()
    for _ in range(6):
        rmax = np.sqrt(np.abs(As).max(axis=1))
        rmax[rmax == 0] = 1.0
        As = As / rmax[:, None]
        d1 = d1 / rmax
        cmax = np.sqrt(np.abs(As).max(axis=0))
        cmax[cmax == 0] = 1.0
        As = As / cmax[None, :]
        d2 = d2 / cmax
    lu = lu_factor(As)
    Ae = A.astype(np.clongdouble)
    be = rhs.astype(np.clongdouble)
    x = (d2 * lu_solve(lu, d1 * rhs)).astype(np.clongdouble)
    last = np.inf
    for _ in range(iters):
        res = be - Ae @ x
        dx = d2 * lu_solve(lu, d1 * res.astype(complex))
        x = x + dx.astype(np.clongdouble)
        step = float(np.abs(dx).max() / max(float(np.abs(x).max()), 1e-300))
        if step < 1e-19:
            break
        last = step
    else:
        if not last < 1e-17:
            raise np.linalg.LinAlgError("iterative refinement did not converge")
    return x if extended else x.astype(complex)


def _xl(a):
    return np.asarray(a).astype(np.clongdouble)


def dyn(M, B, K, W):
    return -(W ** 2) * M + 1j * W * B + K


def accelerance(M, B, K, T, W):
    """H_bb = -W^2 T Z^-1 T^T  (boundary acceleration per unit boundary force)."""
    Z = dyn(M, B, K, W)
    return -(W ** 2) * (T @ np.linalg.solve(Z, T.T.astype(complex)))


def apparent_mass(M, B, K, T, W):
    """AM_bb = (condensed dynamic stiffness at the boundary) / (-W^2).

    T is completed to a non-singular coordinate change y = [T; N] x (N = orthonormal
    basis of null(T)); in y the boundary is the first r coordinates and
    D_bb = Z_bb - Z_bo Z_oo^-1 Z_ob.  Mathematically identical to inv(accelerance) but
    without forming and inverting H_bb, which loses digits when H_bb is dominated by a
    rank-deficient rigid-body part (redundant interfaces at low frequency)."""
    r, n = T.shape
    Z = dyn(M, B, K, W)
    if n == r:
        P = np.linalg.inv(T)
        return (P.T @ Z @ P) / (-(W ** 2))
    _, _, Vt = np.linalg.svd(T)
    P = np.linalg.inv(np.vstack([T, Vt[r:]]))
    Zy = P.T @ Z @ P
    D = Zy[:r, :r] - Zy[:r, r:] @ np.linalg.solve(Zy[r:, r:], Zy[r:, :r])
    return D / (-(W ** 2))


def free_accel(M, B, K, T, W, f):
    Z = dyn(M, B, K, W)
    # product in extended precision too: T @ x may cancel by many digits
    return (-(np.longdouble(W) ** 2) * (_xl(T) @ solve_refined(Z, f, extended=True))).astype(complex)


def coupled_dual(S, L, W, fs):
    """S, L = (M, B, K, T).  Returns (A, F): interface acceleration and the force the
    Source applies to the Load."""
    Ms, Bs, Ks, Ts = S
    Ml, Bl, Kl, Tl = L
    ns, nl, r = Ms.shape[0], Ml.shape[0], Ts.shape[0]
    Zs, Zl = dyn(Ms, Bs, Ks, W), dyn(Ml, Bl, Kl, W)
    # scale the constraint rows/columns so the saddle-point matrix is reasonably balanced
    sc = max(np.abs(Zs).max(), np.abs(Zl).max())
    # power of two: scaling T must not round its entries (the solution can be very
    # sensitive to T when the interface response is a small difference of large terms)
    sc = float(2.0 ** np.round(np.log2(sc))) if sc > 0 else 1.0
    A = np.zeros((ns + nl + r, ns + nl + r), complex)
    A[:ns, :ns] = Zs
    A[ns:ns + nl, ns:ns + nl] = Zl
    A[:ns, ns + nl:] = Ts.T * sc
    A[ns:ns + nl, ns + nl:] = -Tl.T * sc
    A[ns + nl:, :ns] = Ts * sc
    A[ns + nl:, ns:ns + nl] = -Tl * sc
    rhs = np.zeros(ns + nl + r, complex)
    rhs[:ns] = fs
    x = solve_refined(A, rhs, extended=True)
    xs = x[:ns]
    lam = (x[ns + nl:] * np.longdouble(sc)).astype(complex)
    return (-(np.longdouble(W) ** 2) * (_xl(Ts) @ xs)).astype(complex), lam


def coupled_primal(S, L, bs, bl, W, fs):
    """Selection-type boundaries: bs / bl = index vectors of the interface DOF in the
    Source / Load (same order).  Interface DOF merged; F from the Load's own dynamic
    stiffness."""
    Ms, Bs, Ks = S
    Ml, Bl, Kl = L
    ns, nl, r = Ms.shape[0], Ml.shape[0], len(bs)
    os_ = np.setdiff1d(np.arange(ns), bs)
    ol = np.setdiff1d(np.arange(nl), bl)
    n = os_.size + r + ol.size
    # localisation: global vector = [source others | interface | load others]
    Ls = np.zeros((ns, n))
    Ls[os_, np.arange(os_.size)] = 1
    Ls[np.asarray(bs), os_.size + np.arange(r)] = 1
    Ll = np.zeros((nl, n))
    Ll[np.asarray(bl), os_.size + np.arange(r)] = 1
    Ll[ol, os_.size + r + np.arange(ol.size)] = 1
    Zs, Zl = dyn(Ms, Bs, Ks, W), dyn(Ml, Bl, Kl, W)
    Z = Ls.T @ Zs @ Ls + Ll.T @ Zl @ Ll
    x = solve_refined(Z, Ls.T @ fs, extended=True)
    xl = _xl(Ll) @ x
    xb = x[os_.size:os_.size + r]
    F = (_xl(Zl) @ xl)[np.asarray(bl)].astype(complex)
    return (-(np.longdouble(W) ** 2) * xb).astype(complex), F


def cb_reduce(M, B, K, bset):
    """Craig-Bampton form with ALL fixed-interface modes kept (no truncation).

    Returns (Mcb, Bcb, Kcb, T, w) in the order [b-set (given order) | modes]; K_bq is set
    to exactly zero (it is zero analytically)."""
    from scipy.linalg import eigh
    n = K.shape[0]
    b = np.asarray(bset, int)
    o = np.setdiff1d(np.arange(n), b)
    nb, no = b.size, o.size
    T = np.zeros((n, n))
    T[b, np.arange(nb)] = 1.0
    w = np.zeros(0)
    if no:
        Koo = K[np.ix_(o, o)]
        psi = -np.linalg.solve(Koo, K[np.ix_(o, b)])
        w, phi = eigh((Koo + Koo.T) / 2, (M[np.ix_(o, o)] + M[np.ix_(o, o)].T) / 2)
        T[np.ix_(o, np.arange(nb))] = psi
        T[np.ix_(o, nb + np.arange(no))] = phi
    Mcb, Bcb, Kcb = T.T @ M @ T, T.T @ B @ T, T.T @ K @ T
    Kcb[:nb, nb:] = 0.0
    Kcb[nb:, :nb] = 0.0
    return Mcb, Bcb, Kcb, T, w


def permute(M, B, K, order):
    """Reorder DOF: new[i] = old[order[i]]."""
    ix = np.ix_(order, order)
    return M[ix], B[ix], K[ix]
