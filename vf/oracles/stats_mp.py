"""Independent references for C20 (no pyyeti, no scipy.stats).

* normal / chi-square CDF and quantiles in mpmath;
* non-central t CDF from its definition  T = (Z + delta) / U,  U = sqrt(chi2_nu / nu):
      F(t; nu, delta) = P(Z + delta <= t U) = int_0^inf Phi(t u - delta) f_U(u) du
  by mp.quad (tanh-sinh) with break points at the mode of f_U and at the transition of
  Phi (u = delta / t), returned together with the quadrature's own error estimate;
* binomial tails as exact rationals.  Python floats are dyadic rationals, so for
  q = a / 2^m the tail  sum_k C(n,k) q^k (1-q)^(n-k)  times 2^(m n) is an integer; the
  comparisons ``conf >= c`` are decided in integer arithmetic.  For sizes where those
  integers would cost more than ``EXACT_WORK`` (bits x terms) the same positive-term sum is
  evaluated in mp at ``BIG_DPS`` digits (every term positive: relative error
  < terms * 10^(1-BIG_DPS)) and a comparison closer than 10^-60 relative is *refused*
  (returned as None), never guessed.
"""
from fractions import Fraction

import mpmath as mp

DPS = 25
EXACT_WORK = 40_000_000      # bits of the big integers x number of terms
BIG_DPS = 100
MAX_TERMS = 25_000


# ---------------------------------------------------------------- normal / chi-square

def ncdf(x):
    return mp.ncdf(x)


def nppf(p):
    """Normal quantile of the *exact* value of the float p."""
    p = mp.mpf(p)
    if p == mp.mpf(1) / 2:
        return mp.mpf(0)
    if p < mp.mpf(1) / 2:
        return -mp.sqrt(2) * mp.erfinv(1 - 2 * p)
    return mp.sqrt(2) * mp.erfinv(2 * p - 1)


def chi2cdf(x, nu):
    if x <= 0:
        return mp.mpf(0)
    try:
        return mp.gammainc(mp.mpf(nu) / 2, 0, mp.mpf(x) / 2, regularized=True)
    except mp.libmp.libhyper.NoConvergence:      # far tails with huge nu
        return chi2cdf_quad(x, nu)


def _logfU(u, nu):
    """log density of U = sqrt(chi2_nu / nu)."""
    h = mp.mpf(nu) / 2
    return (mp.log(2) + h * mp.log(h) - mp.loggamma(h) + (nu - 1) * mp.log(u)
            - nu * u * u / 2)


def _breaks(nu, extra=()):
    """Break points for integrals against f_U on (0, inf)."""
    nu = mp.mpf(nu)
    sd = 1 / mp.sqrt(2 * nu)
    mode = mp.sqrt((nu - 1) / nu) if nu > 1 else mp.mpf(0)
    pts = {mp.mpf(0)}
    for k in (-12, -4, 0, 4, 12):
        v = mode + k * sd
        if v > 0:
            pts.add(v)
    for v in extra:
        if v > 0:
            pts.add(mp.mpf(v))
    return sorted(pts) + [mp.inf]


def chi2cdf_quad(x, nu):
    """Chi-square CDF by quadrature of f_U (cross-check of ``chi2cdf``)."""
    top = mp.sqrt(mp.mpf(x) / nu)
    pts = [p for p in _breaks(nu)[:-1] if p < top] + [top]
    return mp.quad(lambda u: mp.exp(_logfU(u, nu)) if u > 0 else mp.mpf(0), pts)


def nctcdf(t, nu, delta, error=False):
    """Non-central t CDF F(t; nu, delta) by quadrature of its definition."""
    t, delta = mp.mpf(t), mp.mpf(delta)
    extra = []
    if t != 0:
        u0 = delta / t
        w = 1 / abs(t)
        extra = [u0 + k * w for k in (-9, 0, 9)]
    pts = _breaks(nu, extra)

    def f(u):
        if u <= 0:
            return mp.mpf(0)
        return mp.ncdf(t * u - delta) * mp.exp(_logfU(u, nu))
    val, err = mp.quad(f, pts, error=True)
    return (val, err) if error else val


def nctcdf_slope(t, nu, delta):
    """(F, dF/dt, quadrature error estimate): the CDF and its derivative
    dF/dt = int u phi(t u - delta) f_U(u) du  from ONE quadrature of a complex integrand
    (real part = CDF integrand, imaginary part = density integrand)."""
    t, delta = mp.mpf(t), mp.mpf(delta)
    extra = []
    if t != 0:
        u0 = delta / t
        w = 1 / abs(t)
        extra = [u0 + k * w for k in (-9, 0, 9)]
    pts = _breaks(nu, extra)

    def f(u):
        if u <= 0:
            return mp.mpc(0)
        x = t * u - delta
        return mp.mpc(mp.ncdf(x), u * mp.npdf(x)) * mp.exp(_logfU(u, nu))
    val, err = mp.quad(f, pts, error=True)
    return val.real, val.imag, err


def chi2logpdf(x, nu):
    h = mp.mpf(nu) / 2
    x = mp.mpf(x)
    return (h - 1) * mp.log(x) - x / 2 - h * mp.log(2) - mp.loggamma(h)


def _newton_bracketed(g, dg, lo, hi, x0):
    """Root of the increasing function g in [lo, hi]: Newton steps, bisection whenever
    a step leaves the bracket; stops when the step is below 10^-(dps-4) relative."""
    eps = mp.mpf(10) ** (-(mp.mp.dps - 4))
    x = x0 if lo < x0 < hi else (lo + hi) / 2
    for _ in range(400):
        gx = g(x)
        if gx == 0:
            return x
        if gx > 0:
            hi = x
        else:
            lo = x
        d = dg(x)
        xn = x - gx / d if d > 0 else None
        if xn is None or not (lo < xn < hi):
            xn = (lo + hi) / 2
        if abs(xn - x) <= eps * abs(xn) or hi - lo <= eps * abs(hi):
            return xn
        x = xn
    raise RuntimeError("root finder did not converge")


def chi2ppf(q, nu):
    """Chi-square quantile (bracketed Newton on the mp CDF, Wilson-Hilferty start)."""
    q = mp.mpf(q)
    nu_ = mp.mpf(nu)
    z = nppf(q)
    x0 = nu_ * (1 - 2 / (9 * nu_) + z * mp.sqrt(2 / (9 * nu_))) ** 3
    if not x0 > 0:
        x0 = nu_ * mp.mpf(10) ** -3
    lo, hi = x0 / 2, x0 * 2
    while chi2cdf(lo, nu) > q:
        lo /= 4
    while chi2cdf(hi, nu) < q:
        hi *= 4
    return _newton_bracketed(lambda x: chi2cdf(x, nu) - q,
                             lambda x: mp.exp(chi2logpdf(x, nu)), lo, hi, x0)


def getr(n, p):
    """r with  Phi(1/sqrt(n) + r) - Phi(1/sqrt(n) - r) = p  (increasing in r)."""
    sn = 1 / mp.sqrt(mp.mpf(n))
    p = mp.mpf(p)
    lo, hi = mp.mpf(0), mp.mpf(1)
    while mp.ncdf(sn + hi) - mp.ncdf(sn - hi) < p:
        hi *= 2
    return _newton_bracketed(lambda r: mp.ncdf(sn + r) - mp.ncdf(sn - r) - p,
                             lambda r: mp.npdf(sn + r) + mp.npdf(sn - r), lo, hi,
                             nppf((1 + p) / 2))


def coverage2(n, r):
    sn = 1 / mp.sqrt(mp.mpf(n))
    return mp.ncdf(sn + r) - mp.ncdf(sn - r)


# ---------------------------------------------------------------- binomial, exact

def _dyadic(x):
    """float/Fraction -> (numerator, log2 denominator) exactly."""
    f = Fraction(x)
    d = f.denominator
    m = d.bit_length() - 1
    if d != 1 << m:
        raise ValueError("not dyadic")
    return f.numerator, m


def binom_sf_fraction(r, n, q):
    """P(X >= r), X ~ Binomial(n, q), as a Fraction (small n; any rational q)."""
    from math import comb
    q = Fraction(q)
    r = max(int(r), 0)
    return sum((comb(n, k) * q ** k * (1 - q) ** (n - k) for k in range(r, n + 1)),
               Fraction(0))


def conf_cmp(r, n, p, c):
    """Sign of  conf(r; p, n) - c  where conf = P(Binomial(n, 1-p) >= r),
    decided exactly: +1, 0, -1; ``None`` = refused (too large to decide rigorously).

    p and c are taken as the exact values of the floats.
    """
    r, n = int(r), int(n)
    c_ = Fraction(c)
    if r <= 0:
        return (1 > c_) - (1 < c_)
    if r > n:
        return (0 > c_) - (0 < c_)
    P, m = _dyadic(p)
    a = (1 << m) - P          # q = 1-p = a / 2^m   (success = exceeds the p-quantile)
    b = P                     # 1-q = b / 2^m
    lower = r <= n - r + 1    # sum the shorter side
    nterms = r if lower else n - r + 1
    if nterms > MAX_TERMS:
        return None
    if m * n * nterms <= EXACT_WORK:
        from math import comb
        if lower:             # cdf(r-1) * 2^(mn) = b^(n-r+1) * sum_{k<r} C a^k b^(r-1-k)
            s = 0
            for k in range(r):
                s += comb(n, k) * a ** k * b ** (r - 1 - k)
            cdf_num = s * b ** (n - r + 1)
            sf_num = (1 << (m * n)) - cdf_num
        else:                 # sf(r-1) * 2^(mn) = a^r * sum_{k>=r} C a^(k-r) b^(n-k)
            s = 0
            for k in range(r, n + 1):
                s += comb(n, k) * a ** (k - r) * b ** (n - k)
            sf_num = s * a ** r
        lhs = sf_num * c_.denominator
        rhs = c_.numerator << (m * n)
        return (lhs > rhs) - (lhs < rhs)
    # -- large: positive-term sum in mp with an a-priori error bound -----------------
    with mp.workdps(BIG_DPS):
        q = mp.mpf(a) / mp.mpf(1 << m)
        one_q = mp.mpf(b) / mp.mpf(1 << m)
        ratio = q / one_q
        cm = mp.mpf(c_.numerator) / mp.mpf(c_.denominator)
        if lower:
            t = one_q ** n
            s = mp.mpf(0)
            for k in range(r):
                s += t
                t = t * (n - k) / (k + 1) * ratio
            diff = (1 - cm) - s          # conf - c = (1-c) - cdf(r-1)
            scale = max(s, 1 - cm)
        else:
            t = q ** n
            s = mp.mpf(0)
            inv = one_q / q
            for k in range(n, r - 1, -1):
                s += t
                t = t * k / (n - k + 1) * inv
            diff = s - cm
            scale = max(s, cm)
        if abs(diff) <= scale * mp.mpf(10) ** (-60):
            return None
        return 1 if diff > 0 else -1


def conf_value(r, n, p, dps=40):
    """conf(r; p, n) as an mpf (positive-term sum of the shorter side)."""
    r, n = int(r), int(n)
    if r <= 0:
        return mp.mpf(1)
    if r > n:
        return mp.mpf(0)
    # (1 - sum of the lower terms cancels when the confidence is tiny: 1e-160 is reached
    # with p = 0.99999 and r = 40; 400 guard digits keep 40 correct ones down to 1e-400)
    with mp.workdps(dps + 410):
        fp = Fraction(p)
        pm = mp.mpf(fp.numerator) / mp.mpf(fp.denominator)
        q, one_q = 1 - pm, pm
        if r <= n - r + 1:
            if r > MAX_TERMS:
                return None
            t = one_q ** n
            s = mp.mpf(0)
            for k in range(r):
                s += t
                t = t * (n - k) / (k + 1) * q / one_q
            return +(1 - s)
        if n - r + 1 > MAX_TERMS:
            return None
        t = q ** n
        s = mp.mpf(0)
        for k in range(n, r - 1, -1):
            s += t
            t = t * k / (n - k + 1) * one_q / q
        return +s


def selfcheck():
    """Cross-checks of the oracle against second sources (classic table values and
    a second evaluation route)."""
    ok = True
    with mp.workdps(DPS):
        # normal
        ok &= abs(nppf(0.975) - mp.mpf("1.959963984540054235524594430520551527")) < 1e-15
        ok &= abs(ncdf(nppf(0.001)) - mp.mpf(0.001)) < mp.mpf(10) ** -25
        # chi-square: gammainc route vs quadrature of f_U
        for x, nu in ((3.0, 1), (11.3, 9), (1000.0, 999), (1000300.0, 999999)):
            ok &= abs(chi2cdf(x, nu) - chi2cdf_quad(x, nu)) < mp.mpf(10) ** -18
        # chi-square table: chi2_{0.95, 10} = 18.307038053275146...
        ok &= abs(chi2ppf(0.95, 10) - mp.mpf("18.30703805327514")) < 1e-12
        # central t (delta = 0) closed forms for nu = 1, 2, 3
        for t in (mp.mpf("-0.7"), mp.mpf("2.5"), mp.mpf(40)):
            ok &= abs(nctcdf(t, 1, 0) - (mp.mpf(1) / 2 + mp.atan(t) / mp.pi)) < 1e-18
            ok &= abs(nctcdf(t, 2, 0) - (mp.mpf(1) / 2 + t / (2 * mp.sqrt(2 + t * t)))
                      ) < 1e-18
            x = t / mp.sqrt(3)
            ok &= abs(nctcdf(t, 3, 0) - (mp.mpf(1) / 2 + (x / (1 + x * x) + mp.atan(x))
                                         / mp.pi)) < 1e-18
        # nct, nu=1 closed form is not elementary; use reflection symmetry
        #   F(t; nu, d) = 1 - F(-t; nu, -d)
        a = nctcdf(1.7, 3, 0.8)
        b = 1 - nctcdf(-1.7, 3, -0.8)
        ok &= abs(a - b) < mp.mpf(10) ** -18
        F, dF, _ = nctcdf_slope(1.7, 3, 0.8)
        h = mp.mpf(10) ** -8
        ok &= abs(F - a) < mp.mpf(10) ** -20
        ok &= abs(dF - (nctcdf(1.7 + h, 3, 0.8) - nctcdf(1.7 - h, 3, 0.8)) / (2 * h)
                  ) < mp.mpf(10) ** -12
        # published one-sided tolerance factor, n=21, P99/90: k = 3.028 (tables)
        z = nppf(0.99)
        F = nctcdf(mp.mpf("3.028") * mp.sqrt(21), 20, z * mp.sqrt(21))
        ok &= abs(F - mp.mpf("0.9")) < 2e-4
    # binomial
    ok &= binom_sf_fraction(2, 3, Fraction(1, 2)) == Fraction(1, 2)
    ok &= conf_cmp(2, 3, 0.5, 0.5) == 0
    ok &= conf_cmp(4, 700, 0.99, 0.90) == 1 and conf_cmp(5, 700, 0.99, 0.90) == -1
    ok &= conf_cmp(1, 230, 0.99, 0.90) == 1 and conf_cmp(1, 229, 0.99, 0.90) == -1
    big = conf_cmp(4, 700, 0.99, 0.90), conf_cmp(5, 700, 0.99, 0.90)
    global EXACT_WORK
    save, EXACT_WORK = EXACT_WORK, 0
    try:
        ok &= (conf_cmp(4, 700, 0.99, 0.90), conf_cmp(5, 700, 0.99, 0.90)) == big
        ok &= conf_cmp(2, 3, 0.5, 0.5) is None
    finally:
        EXACT_WORK = save
    v = conf_value(4, 700, 0.99)
    ok &= abs(v - mp.mpf("0.91927834")) < 1e-7
    ok &= abs(conf_value(3, 5, 0.25) - mp.mpf(binom_sf_fraction(3, 5, Fraction(3, 4)).numerator)
              / binom_sf_fraction(3, 5, Fraction(3, 4)).denominator) < mp.mpf(10) ** -35
    return bool(ok)
