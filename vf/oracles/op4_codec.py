"""Independent Nastran OUTPUT4 codec: encoder and *strict* decoder (DESIGN 3, C04/C11).

Written from the record layouts in DESIGN.md section 5/C11 and from the Nastran-written
sample files; it shares no code with pyYeti and never imports it.

Binary   every record is ``[len:int32] payload [len:int32]``.
         header payload = ncol, nrow (<0 => bigmat), form, type as 4 keys (int32, or int64
         in a "64-bit" file) + name (2 words: 8 or 16 bytes);
         one record per non-null column = icol, irow (0 => sparse), nwords + data;
         a real is 1 word (single, or anything in a 64-bit file) or 2 words (double in a
         32-bit file); complex = (re, im) pairs;
         bigmat string    = keys (L+1, irow) + L words;
         nonbigmat string = key  irow + 65536*(L+1)  + L words;
         closing record   = ncol+1, 1, <nw> + one real.
ASCII    header ``(4I8, A8, format)`` (``|I16`` suffix: first two integers 16 wide),
         column line ``3I8`` (dense: irow, number of reals; sparse: 0, number of words with
         a double counted as 2 words and a single as 1), string line ``2I8`` (L+1, irow) or
         one integer ``irow + 65536*(L+1)``, numbers ``perline`` to a line in fields of
         ``numlen`` characters with an E or D exponent, closing ``ncol+1, 1, 1`` + one real.

The decoder returns the logical content *and* the physical layout it met (string
partition per column, name padding, closing value, ASCII format token, width of the
nonbigmat string word ...).  ``encode(decode(x)) == x`` byte for byte on the shipped
Nastran files is what makes the codec credible (``selfcheck_samples``).
"""
import os
import re
import struct

import numpy as np


class CodecError(Exception):
    pass


INT32_MAX = 2 ** 31 - 1


# --------------------------------------------------------------------------------------
# containers
# --------------------------------------------------------------------------------------

class Matrix:
    """One OUTPUT4 matrix: logical content + physical layout.

    name      stripped name as stored (upper case normally)
    name_raw  the name field exactly as stored (binary: 8/16 bytes; ascii: <= 8 chars)
    nrow,ncol sizes (nrow always positive here); neg_rows = header carried -nrow
    form, mtype   Nastran form and type (1 rs, 2 rd, 3 cs, 4 cd)
    layout    'dense' | 'bigmat' | 'nonbigmat'
    cols      list of (icol, [(irow, vals), ...]) in file order; icol/irow 1-based;
              vals = 1-D float64 array of the stored reals (complex interleaved re, im)
    closing   dict(nwords=..., value=float)   the record after the last column
    ascii-only: fmt (text after the name, may be ''), i16, perline, numlen, ndec, expchar,
              is_width (width of the nonbigmat string-word line)
    start, data_start, stop   byte offsets of the block in the file it was decoded from /
              encoded into
    """

    def __init__(self, name, nrow, ncol, form, mtype, layout, cols, neg_rows=None,
                 name_raw=None, closing=None, fmt=None, i16=False, perline=None,
                 numlen=None, ndec=None, expchar="E", is_width=8, prefix_1p=True):
        self.name = name
        self.name_raw = name_raw
        self.nrow, self.ncol, self.form, self.mtype = int(nrow), int(ncol), int(form), int(mtype)
        self.layout = layout
        self.neg_rows = (layout == "bigmat") if neg_rows is None else bool(neg_rows)
        self.cols = cols
        self.closing = closing or {"nwords": 1, "value": 1.0}
        self.fmt, self.i16 = fmt, i16
        self.perline, self.numlen, self.ndec = perline, numlen, ndec
        self.expchar, self.is_width, self.prefix_1p = expchar, is_width, prefix_1p
        self.start = self.data_start = self.stop = None
        self.col_offsets = []

    # -- logical views -------------------------------------------------------------
    @property
    def is_complex(self):
        return self.mtype > 2

    def triplets(self):
        """(I, J, V) of every stored element (explicit zeros kept), 0-based."""
        I, J, V = [], [], []
        cplx = self.is_complex
        for icol, strings in self.cols:
            for irow, vals in strings:
                v = np.asarray(vals, dtype=float)
                if cplx:
                    v = v[0::2] + 1j * v[1::2]
                n = v.shape[0]
                I.append(np.arange(irow - 1, irow - 1 + n, dtype=np.int64))
                J.append(np.full(n, icol - 1, dtype=np.int64))
                V.append(v)
        if not I:
            return (np.zeros(0, np.int64), np.zeros(0, np.int64),
                    np.zeros(0, complex if cplx else float))
        return np.concatenate(I), np.concatenate(J), np.concatenate(V)

    def to_dense(self):
        A = np.zeros((self.nrow, self.ncol), dtype=complex if self.is_complex else float)
        I, J, V = self.triplets()
        A[I, J] = V
        return A

    def max_string_words(self, bit64=False):
        """Largest L (words) of any string, as the sparse layouts count it."""
        wper = 1 if (self.mtype & 1 or bit64) else 2
        m = 0
        for _, strings in self.cols:
            for _, vals in strings:
                m = max(m, len(vals) * wper)
        return m


class File:
    def __init__(self, kind, mats, endian="<", bit64=False, newline="\n"):
        self.kind, self.mats = kind, mats
        self.endian, self.bit64, self.newline = endian, bit64, newline


# --------------------------------------------------------------------------------------
# helpers
# --------------------------------------------------------------------------------------

def words_per_real(mtype, bit64):
    return 1 if (mtype & 1 or bit64) else 2


def real_dtype(mtype, bit64, endian):
    return np.dtype(endian + ("f4" if (mtype & 1 and not bit64) else "f8"))


def stored_values(vals, mtype, bit64):
    """What a reader must get back for `vals` written with this type/key width."""
    v = np.asarray(vals, dtype=float)
    if mtype & 1 and not bit64:
        return v.astype(np.float32).astype(float)
    return v


def columns_from_dense(A, partition=None):
    """Columns of a dense array as [(icol, [(irow, reals)])] with one string per run of
    non-zeros (partition=None -> Nastran-like), or per `partition[j]` = list of
    (start0, length) pieces."""
    A = np.asarray(A)
    cplx = np.iscomplexobj(A)
    cols = []
    for j in range(A.shape[1]):
        v = A[:, j]
        if partition is not None and j in partition:
            pieces = partition[j]
        else:
            nz = np.flatnonzero(v)
            if nz.size == 0:
                continue
            brk = np.flatnonzero(np.diff(nz) != 1)
            starts = np.concatenate(([nz[0]], nz[brk + 1]))
            ends = np.concatenate((nz[brk], [nz[-1]]))
            pieces = [(int(s), int(e - s + 1)) for s, e in zip(starts, ends)]
        if not pieces:
            continue
        strings = []
        for s, n in pieces:
            seg = v[s:s + n]
            if cplx:
                r = np.empty(2 * n)
                r[0::2], r[1::2] = seg.real, seg.imag
            else:
                r = np.asarray(seg, dtype=float).copy()
            strings.append((s + 1, r))
        cols.append((j + 1, strings))
    return cols


# --------------------------------------------------------------------------------------
# binary
# --------------------------------------------------------------------------------------

def _detect_binary(buf):
    if len(buf) < 4:
        raise CodecError("file shorter than one record-length word")
    for endian in "<>":
        n = struct.unpack(endian + "i", buf[:4])[0]
        if n == 24:
            return endian, False
        if n == 48:
            return endian, True
    raise CodecError("first record length is neither 24 nor 48 in either byte order")


class _Rd:
    def __init__(self, buf, endian):
        self.b, self.e, self.pos = buf, endian, 0

    def record(self):
        b, p = self.b, self.pos
        if p + 4 > len(b):
            raise CodecError(f"truncated record-length word at {p}")
        n = struct.unpack(self.e + "i", b[p:p + 4])[0]
        if n < 0 or p + 8 + n > len(b):
            raise CodecError(f"record at {p}: length {n} runs past end of file")
        n2 = struct.unpack(self.e + "i", b[p + 4 + n:p + 8 + n])[0]
        if n2 != n:
            raise CodecError(f"record at {p}: leading length {n} != trailing length {n2}")
        self.pos = p + 8 + n
        return b[p + 4:p + 4 + n]


def decode_binary(buf):
    endian, bit64 = _detect_binary(buf)
    rd = _Rd(buf, endian)
    ksz = 8 if bit64 else 4
    kch = "q" if bit64 else "i"
    mats = []
    while rd.pos < len(buf):
        start = rd.pos
        h = rd.record()
        if len(h) != 4 * ksz + 2 * ksz:
            raise CodecError(f"header record at {start}: {len(h)} bytes, expected {6 * ksz}")
        ncol, nrow, form, mtype = struct.unpack(endian + "4" + kch, h[:4 * ksz])
        name_raw = bytes(h[4 * ksz:])
        try:
            name = name_raw.decode("ascii")
        except UnicodeDecodeError:
            raise CodecError(f"matrix name is not ASCII: {name_raw!r}")
        if mtype not in (1, 2, 3, 4):
            raise CodecError(f"matrix {name!r}: type {mtype}")
        if ncol < 0 or nrow == 0 and ncol < 0:
            raise CodecError(f"matrix {name!r}: ncol {ncol}")
        neg = nrow < 0
        nrow = abs(nrow)
        wper = words_per_real(mtype, bit64)
        dt = real_dtype(mtype, bit64, endian)
        cplx = mtype > 2
        per_elem = 2 if cplx else 1
        cols, col_offsets = [], []
        layout = None
        last = 0
        data_start = rd.pos
        while True:
            cpos = rd.pos
            r = rd.record()
            if len(r) < 3 * ksz:
                raise CodecError(f"{name!r}: column record at {cpos} shorter than 3 keys")
            icol, irow, nwords = struct.unpack(endian + "3" + kch, r[:3 * ksz])
            data = r[3 * ksz:]
            if icol > ncol:
                if icol != ncol + 1 or irow != 1:
                    raise CodecError(f"{name!r}: closing record has icol={icol} irow={irow}"
                                     f" (ncol={ncol})")
                if len(data) not in (4, 8) or len(data) < ksz:
                    raise CodecError(f"{name!r}: closing record carries {len(data)} bytes, "
                                     f"expected one real")
                if nwords not in (1, 2):
                    raise CodecError(f"{name!r}: closing record nwords={nwords}")
                closing = {"nwords": int(nwords), "nbytes": len(data),
                           "value": float(np.frombuffer(
                               data, endian + ("f4" if len(data) == 4 else "f8"))[0])}
                break
            if icol <= last or icol < 1:
                raise CodecError(f"{name!r}: column numbers not increasing ({last} -> {icol})")
            last = icol
            if len(data) != nwords * ksz:
                raise CodecError(f"{name!r} col {icol}: nwords={nwords} but record carries "
                                 f"{len(data)} bytes ({ksz}-byte words)")
            col_offsets.append((int(icol), cpos, rd.pos))
            if irow > 0:
                this = "dense"
                if nwords % (wper * per_elem) or nwords == 0:
                    raise CodecError(f"{name!r} col {icol}: dense nwords={nwords} not a "
                                     f"multiple of {wper * per_elem}")
                vals = np.frombuffer(data, dt).astype(float)
                nel = vals.shape[0] // per_elem
                if irow - 1 + nel > nrow:
                    raise CodecError(f"{name!r} col {icol}: rows {irow}..{irow + nel - 1} "
                                     f"exceed nrow={nrow}")
                strings = [(int(irow), vals)]
            elif irow == 0:
                big = neg or nrow >= 65536
                this = "bigmat" if big else "nonbigmat"
                strings = []
                p, w = 0, 0
                prev_end = 0
                if nwords == 0:
                    raise CodecError(f"{name!r} col {icol}: sparse column without strings")
                while w < nwords:
                    if big:
                        if p + 2 * ksz > len(data):
                            raise CodecError(f"{name!r} col {icol}: truncated string header")
                        L1, r0 = struct.unpack(endian + "2" + kch, data[p:p + 2 * ksz])
                        p += 2 * ksz
                        w += 2
                    else:
                        if p + ksz > len(data):
                            raise CodecError(f"{name!r} col {icol}: truncated string header")
                        IS = struct.unpack(endian + kch, data[p:p + ksz])[0]
                        if IS <= 0:
                            raise CodecError(f"{name!r} col {icol}: string word IS={IS}")
                        L1, r0 = IS >> 16, IS & 0xFFFF
                        p += ksz
                        w += 1
                    L = L1 - 1
                    if L <= 0 or L % (wper * per_elem):
                        raise CodecError(f"{name!r} col {icol}: string length L={L} words "
                                         f"(unit {wper * per_elem})")
                    nb = L * ksz
                    if p + nb > len(data):
                        raise CodecError(f"{name!r} col {icol}: string of {L} words runs past "
                                         f"the column record")
                    vals = np.frombuffer(data[p:p + nb], dt).astype(float)
                    p += nb
                    w += L
                    nel = vals.shape[0] // per_elem
                    if r0 < 1 or r0 - 1 + nel > nrow:
                        raise CodecError(f"{name!r} col {icol}: string rows {r0}.."
                                         f"{r0 + nel - 1} outside 1..{nrow}")
                    if r0 <= prev_end:
                        raise CodecError(f"{name!r} col {icol}: strings overlap or are not "
                                         f"ascending (row {r0} after {prev_end})")
                    prev_end = r0 + nel - 1
                    strings.append((int(r0), vals))
                if w != nwords or p != len(data):
                    raise CodecError(f"{name!r} col {icol}: strings use {w} words, header "
                                     f"says {nwords}")
            else:
                raise CodecError(f"{name!r} col {icol}: irow={irow}")
            if layout is None:
                layout = this
            elif layout != this:
                raise CodecError(f"{name!r}: mixes {layout} and {this} columns")
            cols.append((int(icol), strings))
        if layout is None:
            layout = "bigmat" if neg else "dense"
        m = Matrix(name.strip(" \x00"), nrow, ncol, form, mtype, layout, cols, neg_rows=neg,
                   name_raw=name_raw, closing=closing)
        m.start, m.data_start, m.stop = start, data_start, rd.pos
        m.col_offsets = col_offsets
        mats.append(m)
    return File("binary", mats, endian=endian, bit64=bit64)


def _name_field(m, nbytes):
    if m.name_raw is not None and isinstance(m.name_raw, bytes) and len(m.name_raw) == nbytes:
        return m.name_raw
    return m.name.encode("ascii").ljust(nbytes)[:nbytes]


def encode_binary(f):
    e, bit64 = f.endian, f.bit64
    ksz = 8 if bit64 else 4
    kch = "q" if bit64 else "i"
    out = bytearray()

    def rec(payload):
        n = len(payload)
        if n > INT32_MAX:
            raise CodecError("record longer than int32")
        out.extend(struct.pack(e + "i", n))
        out.extend(payload)
        out.extend(struct.pack(e + "i", n))

    for m in f.mats:
        m.start = len(out)
        m.col_offsets = []
        wper = words_per_real(m.mtype, bit64)
        dt = real_dtype(m.mtype, bit64, e)
        nrow = -m.nrow if m.neg_rows else m.nrow
        rec(struct.pack(e + "4" + kch, m.ncol, nrow, m.form, m.mtype)
            + _name_field(m, 2 * ksz))
        m.data_start = len(out)
        big = m.layout == "bigmat"
        for icol, strings in m.cols:
            cpos = len(out)
            if m.layout == "dense":
                (irow, vals), = strings
                body = np.asarray(vals, dtype=float).astype(dt).tobytes()
                head = struct.pack(e + "3" + kch, icol, irow, len(vals) * wper)
            else:
                parts, nwords = [], 0
                for irow, vals in strings:
                    L = len(vals) * wper
                    if big:
                        parts.append(struct.pack(e + "2" + kch, L + 1, irow))
                        nwords += L + 2
                    else:
                        IS = irow + 65536 * (L + 1)
                        if irow > 65535 or (not bit64 and IS > INT32_MAX):
                            raise CodecError("nonbigmat string word does not fit")
                        parts.append(struct.pack(e + kch, IS))
                        nwords += L + 1
                    parts.append(np.asarray(vals, dtype=float).astype(dt).tobytes())
                body = b"".join(parts)
                head = struct.pack(e + "3" + kch, icol, 0, nwords)
            rec(head + body)
            m.col_offsets.append((icol, cpos, len(out)))
        cb = m.closing.get("nbytes") or dt.itemsize
        rec(struct.pack(e + "3" + kch, m.ncol + 1, 1, m.closing["nwords"])
            + np.array([m.closing["value"]], dtype=float).astype(
                e + ("f4" if cb == 4 else "f8")).tobytes())
        m.stop = len(out)
    return bytes(out)


# --------------------------------------------------------------------------------------
# ASCII
# --------------------------------------------------------------------------------------

_FMT = re.compile(r"^(1P,)?(\d+)([ED])(\d+)\.(\d+)$")


def parse_format(tok):
    """'1P,3E23.16' -> (prefix_1p, perline, expchar, numlen, ndec); '' -> defaults."""
    t = tok.strip().upper()
    if t == "":
        return True, 5, "E", 16, 9
    m = _FMT.match(t)
    if not m:
        raise CodecError(f"unparsable number format {tok!r}")
    return (bool(m.group(1)), int(m.group(2)), m.group(3), int(m.group(4)),
            int(m.group(5)))


def format_number(v, numlen, ndec, expchar="E"):
    s = "%*.*E" % (numlen, ndec, v)
    if len(s) != numlen:
        raise CodecError(f"value {v!r} needs {len(s)} characters, field is {numlen}")
    return s if expchar == "E" else s.replace("E", expchar)


_NUM = re.compile(r"^ *[-+]?\d\.\d+[ED][-+]\d{2,3}$")


def _ints(line, widths, what):
    if len(line) != sum(widths):
        raise CodecError(f"{what}: line {line!r} is {len(line)} characters, expected "
                         f"{sum(widths)}")
    out, p = [], 0
    for w in widths:
        tok = line[p:p + w]
        p += w
        if not re.match(r"^ *-?\d+$", tok):
            raise CodecError(f"{what}: bad integer field {tok!r} in {line!r}")
        out.append(int(tok))
    return out


def decode_ascii(buf):
    try:
        text = buf.decode("ascii")
    except UnicodeDecodeError:
        raise CodecError("ASCII file holds non-ASCII bytes")
    newline = "\r\n" if "\r\n" in text else "\n"
    if not text.endswith(newline):
        raise CodecError("file does not end with a newline")
    lines = text.split(newline)[:-1]
    # byte offset of each line start
    offs = [0]
    for ln in lines:
        offs.append(offs[-1] + len(ln) + len(newline))
    mats = []
    k = 0
    nl = len(lines)

    def need(i, what):
        if i >= nl:
            raise CodecError(f"file ends inside {what}")
        return lines[i]

    while k < nl:
        start = offs[k]
        hdr = lines[k]
        k += 1
        i16 = hdr.endswith("|I16")
        body = hdr[:-4] if i16 else hdr
        iw = 16 if i16 else 8
        fixed = 2 * iw + 16
        if len(body) < fixed:
            raise CodecError(f"header line too short: {hdr!r}")
        ncol, nrow, form, mtype = _ints(body[:fixed], [iw, iw, 8, 8], "matrix header")
        name_raw = body[fixed:fixed + 8]
        fmt = body[fixed + 8:]
        if fmt != "" and len(name_raw) != 8:
            raise CodecError(f"header name field short: {hdr!r}")
        p1, perline, expchar, numlen, ndec = parse_format(fmt)
        if mtype not in (1, 2, 3, 4):
            raise CodecError(f"matrix {name_raw!r}: type {mtype}")
        neg = nrow < 0
        nrow = abs(nrow)
        cplx = mtype > 2
        per_elem = 2 if cplx else 1
        wper = 1 if mtype & 1 else 2
        name = name_raw.strip()

        used = [None]
        raw = {}
        line0 = k

        def numbers(i, n, what):
            """n numbers starting at line i, perline to a line, strict widths."""
            vals = np.empty(n)
            got = 0
            while got < n:
                ln = need(i, what)
                take = min(perline, n - got)
                if len(ln) != take * numlen:
                    raise CodecError(f"{what}: line {ln!r} has {len(ln)} characters, "
                                     f"expected {take} fields of {numlen}")
                for t in range(take):
                    tok = ln[t * numlen:(t + 1) * numlen]
                    if not _NUM.match(tok):
                        raise CodecError(f"{what}: bad number field {tok!r}")
                    ch = "D" if "D" in tok else "E"
                    if used[0] is None:
                        used[0] = ch
                    elif used[0] != ch:
                        raise CodecError(f"{what}: mixes E and D exponents")
                    vals[got] = float(tok.replace("D", "E"))
                    if "%*.*E" % (numlen, ndec, vals[got]) != tok.replace("D", "E"):
                        raw[(i, t)] = tok
                    got += 1
                i += 1
            return vals, i

        cols, col_offsets = [], []
        layout = None
        last = 0
        is_width = None
        is_full = []
        data_start = offs[k]
        while True:
            cpos = offs[k] if k < nl else None
            cl = need(k, f"matrix {name!r}")
            k += 1
            icol, irow, nwords = _ints(cl, [8, 8, 8], f"{name!r} column line")
            if icol > ncol:
                if icol != ncol + 1 or irow != 1 or nwords not in (1, 2):
                    raise CodecError(f"{name!r}: closing line {cl!r} (ncol={ncol})")
                v, k = numbers(k, 1, f"{name!r} closing value")
                closing = {"nwords": nwords, "value": float(v[0])}
                break
            if icol <= last or icol < 1:
                raise CodecError(f"{name!r}: column numbers not increasing ({last}->{icol})")
            last = icol
            if irow > 0:
                this = "dense"
                if nwords % per_elem or nwords == 0:
                    raise CodecError(f"{name!r} col {icol}: {nwords} reals for a "
                                     f"{'complex' if cplx else 'real'} column")
                vals, k = numbers(k, nwords, f"{name!r} col {icol}")
                if irow - 1 + nwords // per_elem > nrow:
                    raise CodecError(f"{name!r} col {icol}: rows exceed nrow={nrow}")
                strings = [(irow, vals)]
            elif irow == 0:
                big = neg or nrow >= 65536
                this = "bigmat" if big else "nonbigmat"
                strings, w, prev_end = [], 0, 0
                if nwords == 0:
                    raise CodecError(f"{name!r} col {icol}: sparse column without strings")
                while w < nwords:
                    sl = need(k, f"{name!r} col {icol}")
                    k += 1
                    if big:
                        L1, r0 = _ints(sl, [8, 8], f"{name!r} col {icol} string line")
                        w += 2
                    else:
                        if not re.match(r"^ *\d+$", sl):
                            raise CodecError(f"{name!r} col {icol}: string word {sl!r}")
                        # right-justified in a field of is_width; wider numbers fill it
                        if sl.startswith(" "):
                            if is_width is not None and is_width != len(sl):
                                raise CodecError(f"{name!r}: string-word lines of width "
                                                 f"{is_width} and {len(sl)}")
                            is_width = len(sl)
                            if any(w < is_width for w in is_full):
                                raise CodecError(f"{name!r}: string-word field widths vary")
                        else:
                            is_full.append(len(sl))
                            if is_width is not None and len(sl) < is_width:
                                raise CodecError(f"{name!r}: string-word field widths vary")
                        IS = int(sl)
                        if IS > INT32_MAX:
                            raise CodecError(f"{name!r} col {icol}: string word {IS} "
                                             f"exceeds a 32-bit integer")
                        L1, r0 = IS >> 16, IS & 0xFFFF
                        w += 1
                    L = L1 - 1
                    if L <= 0 or L % (wper * per_elem):
                        raise CodecError(f"{name!r} col {icol}: string length L={L} words")
                    vals, k = numbers(k, L // wper, f"{name!r} col {icol} string")
                    w += L
                    nel = vals.shape[0] // per_elem
                    if r0 < 1 or r0 - 1 + nel > nrow:
                        raise CodecError(f"{name!r} col {icol}: string rows {r0}.."
                                         f"{r0 + nel - 1} outside 1..{nrow}")
                    if r0 <= prev_end:
                        raise CodecError(f"{name!r} col {icol}: strings overlap / not "
                                         f"ascending")
                    prev_end = r0 + nel - 1
                    strings.append((r0, vals))
                if w != nwords:
                    raise CodecError(f"{name!r} col {icol}: strings use {w} words, header "
                                     f"says {nwords}")
            else:
                raise CodecError(f"{name!r} col {icol}: irow={irow}")
            if layout is None:
                layout = this
            elif layout != this:
                raise CodecError(f"{name!r}: mixes {layout} and {this} columns")
            cols.append((icol, strings))
            col_offsets.append((icol, cpos, offs[k]))
        if layout is None:
            layout = "bigmat" if neg else "dense"
        m = Matrix(name, nrow, ncol, form, mtype, layout, cols, neg_rows=neg,
                   name_raw=name_raw, closing=closing, fmt=fmt, i16=i16, perline=perline,
                   numlen=numlen, ndec=ndec, expchar=expchar,
                   is_width=is_width if is_width is not None else min(is_full + [8]),
                   prefix_1p=p1)
        m.numchar = used[0] or expchar
        # tokens that "%w.dE" of the parsed double does not reproduce (18-digit fields
        # written by a formatter that is not correctly rounded): kept verbatim, keyed by
        # (line relative to the first line after the header, field index)
        m.raw_tokens = {(i - line0, t): tok for (i, t), tok in raw.items()}
        m.start, m.data_start, m.stop = start, data_start, offs[k]
        m.col_offsets = col_offsets
        mats.append(m)
    return File("ascii", mats, newline=newline)


def encode_ascii(f):
    nlc = f.newline
    out = []
    pos = 0

    def put(s):
        nonlocal pos
        out.append(s)
        out.append(nlc)
        pos += len(s) + len(nlc)

    for m in f.mats:
        m.start = pos
        m.col_offsets = []
        rawtok = getattr(m, "raw_tokens", None) or {}
        if m.perline is None:
            m.perline, m.numlen, m.ndec = 3, 23, 16
        if m.fmt is None:
            m.fmt = f"{'1P,' if m.prefix_1p else ''}{m.perline}{m.expchar}{m.numlen}.{m.ndec}"
        p1, perline, expchar, numlen, ndec = parse_format(m.fmt)
        iw = 16 if m.i16 else 8
        nrow = -m.nrow if m.neg_rows else m.nrow
        name_raw = m.name_raw if isinstance(m.name_raw, str) else f"{m.name:<8}"
        h = f"{m.ncol:{iw}d}{nrow:{iw}d}{m.form:8d}{m.mtype:8d}{name_raw}{m.fmt}"
        if len(f"{m.ncol:{iw}d}") != iw or len(f"{nrow:{iw}d}") != iw:
            raise CodecError("header integer overflows its field")
        put(h + ("|I16" if m.i16 else ""))
        m.data_start = pos
        wper = 1 if m.mtype & 1 else 2
        big = m.layout == "bigmat"
        numchar = getattr(m, "numchar", None) or expchar
        line0 = len(out) // 2

        def numbers(vals):
            n = len(vals)
            for a in range(0, n, perline):
                ln = len(out) // 2 - line0
                put("".join(rawtok.get((ln, t)) or format_number(v, numlen, ndec, numchar)
                            for t, v in enumerate(vals[a:a + perline])))

        for icol, strings in m.cols:
            cpos = pos
            if m.layout == "dense":
                (irow, vals), = strings
                put(f"{icol:8d}{irow:8d}{len(vals):8d}")
                numbers(vals)
            else:
                nwords = sum(len(v) * wper + (2 if big else 1) for _, v in strings)
                put(f"{icol:8d}{0:8d}{nwords:8d}")
                for irow, vals in strings:
                    L = len(vals) * wper
                    if big:
                        put(f"{L + 1:8d}{irow:8d}")
                    else:
                        IS = irow + 65536 * (L + 1)
                        if irow > 65535 or IS > INT32_MAX:
                            raise CodecError("nonbigmat string word does not fit")
                        put(f"{IS:{m.is_width}d}")
                    numbers(vals)
            m.col_offsets.append((icol, cpos, pos))
        put(f"{m.ncol + 1:8d}{1:8d}{m.closing['nwords'] if m.closing['nwords'] in (1, 2) else 1:8d}")
        numbers([m.closing["value"]])
        m.stop = pos
    return "".join(out).encode("ascii")


# --------------------------------------------------------------------------------------
# front ends
# --------------------------------------------------------------------------------------

def is_binary(buf):
    return len(buf) >= 4 and min(buf[:4]) == 0


def decode(buf):
    """Strictly decode an OUTPUT4 file image (bytes) -> File."""
    if len(buf) == 0:
        raise CodecError("empty file")
    return decode_binary(buf) if is_binary(buf) else decode_ascii(buf)


def encode(f):
    return encode_binary(f) if f.kind == "binary" else encode_ascii(f)


SAMPLE_ROOT = "pyyeti/tests"
SAMPLE_MAX_BYTES = 64_000_000


def sample_files(repo, extra=True):
    """Every *.op4 / *.op4.other under pyyeti/tests (extra=False: nastran_op4_data only)."""
    out = []
    for d, _, files in sorted(os.walk(os.path.join(repo, SAMPLE_ROOT))):
        if not extra and os.path.basename(d) != "nastran_op4_data":
            continue
        for fn in sorted(files):
            if fn.endswith(".op4") or fn.endswith(".op4.other"):
                out.append(os.path.join(d, fn))
    return out


def selfcheck_samples(repo, extra=True):
    """decode + byte-exact re-encode of every shipped sample file.

    Returns (n_ok, failures[list of (file, reason)], stats).  Matrices are kept in the
    string container, so the 10^7-dimension ``nas_large_dim_*`` files are handled too;
    only files above SAMPLE_MAX_BYTES would be skipped (none are).
    """
    ok, bad = 0, []
    stats = {"binary": 0, "ascii": 0, "bit64": 0, "big_endian": 0, "matrices": 0,
             "layouts": {}, "types": {}, "formats": {}}
    for path in sample_files(repo, extra):
        if os.path.getsize(path) > SAMPLE_MAX_BYTES:
            continue
        buf = open(path, "rb").read()
        try:
            f = decode(buf)
            again = encode(f)
        except CodecError as e:
            bad.append((os.path.relpath(path, repo), "decode/encode: " + str(e)))
            continue
        if again != buf:
            i = next((i for i, (a, b) in enumerate(zip(again, buf)) if a != b),
                     min(len(again), len(buf)))
            bad.append((os.path.relpath(path, repo),
                        f"re-encoding differs at byte {i}: {buf[i:i + 40]!r} vs "
                        f"{again[i:i + 40]!r}"))
            continue
        ok += 1
        stats[f.kind] += 1
        stats["bit64"] += bool(f.kind == "binary" and f.bit64)
        stats["big_endian"] += bool(f.kind == "binary" and f.endian == ">")
        for m in f.mats:
            stats["matrices"] += 1
            stats["layouts"][m.layout] = stats["layouts"].get(m.layout, 0) + 1
            stats["types"][m.mtype] = stats["types"].get(m.mtype, 0) + 1
            if f.kind == "ascii":
                stats["formats"][m.fmt] = stats["formats"].get(m.fmt, 0) + 1
                stats["verbatim_number_tokens"] = (stats.get("verbatim_number_tokens", 0)
                                                   + len(m.raw_tokens))
    return ok, bad, stats
