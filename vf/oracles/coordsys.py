"""Nastran CORD2R / CORD2C / CORD2S geometry written from the definitions in the Quick
Reference Guide.  No pyyeti imports.

A system is defined by three points A (origin), B (on the +z axis) and C (in the x-z
plane, +x side), all given in the coordinates of a *reference* system, which may itself
be rectangular (1), cylindrical (2: R, theta[deg], z) or spherical (3: R, theta[deg]
from +z, phi[deg] azimuth from +x).  ``resolve`` walks the reference chain and returns,
per system, its type, its origin in basic and the 3x3 matrix E whose COLUMNS are the
system's x, y, z unit axes in basic (so  x_basic = o + E @ v_local_rect).

Displacement ("global") directions of a grid whose output system is
  rectangular : the axes E
  cylindrical : e_r (away from the z axis), e_theta = e_z x e_r, e_z
  spherical   : e_r (away from the origin), e_theta (towards increasing polar angle),
                e_phi = e_z x e_r / |..|  (azimuthal)
They are built here from cross products of the position vector -- no angles -- so the
construction shares nothing with trigonometric "fix-up" rotations.
"""
import math

import numpy as np

RECT, CYL, SPH = 1, 2, 3


def local_rect(ctype, q):
    """Coordinates q of a point in a type-`ctype` system -> its local rectangular vector."""
    q = [float(x) for x in q]
    if ctype == RECT:
        return np.array(q)
    if ctype == CYL:
        t = math.radians(q[1])
        return np.array([q[0] * math.cos(t), q[0] * math.sin(t), q[2]])
    if ctype == SPH:
        t, p = math.radians(q[1]), math.radians(q[2])
        return np.array([q[0] * math.sin(t) * math.cos(p),
                         q[0] * math.sin(t) * math.sin(p),
                         q[0] * math.cos(t)])
    raise ValueError(ctype)


def local_coords(ctype, v):
    """Inverse of local_rect (angles in degrees; theta/phi arbitrary on the axes)."""
    x, y, z = (float(c) for c in v)
    if ctype == RECT:
        return np.array([x, y, z])
    if ctype == CYL:
        return np.array([math.hypot(x, y), math.degrees(math.atan2(y, x)), z])
    rho = math.hypot(x, y)
    return np.array([math.sqrt(x * x + y * y + z * z),
                     math.degrees(math.atan2(rho, z)),
                     math.degrees(math.atan2(y, x))])


def unit(v):
    return v / math.sqrt(float(v @ v))


def frame_from_abc(a, b, c):
    """Axes (columns) of the system with origin a, +z through b, c in the +x half of
    the x-z plane.  a, b, c in one common rectangular frame."""
    ez = unit(b - a)
    ey = unit(np.cross(ez, c - a))
    ex = np.cross(ey, ez)
    return np.column_stack([ex, ey, ez])


def collinearity(a, b, c):
    """sin of the angle between AB and AC (0 = collinear), and min(|AB|, |AC|)."""
    ab, ac = b - a, c - a
    nab, nac = math.sqrt(float(ab @ ab)), math.sqrt(float(ac @ ac))
    if nab == 0 or nac == 0:
        return 0.0, 0.0
    cr = np.cross(ab, ac)
    return math.sqrt(float(cr @ cr)) / (nab * nac), min(nab, nac)


BASIC = {"cid": 0, "type": RECT, "o": np.zeros(3), "E": np.eye(3)}


def resolve(cards):
    """cards: iterable of (cid, ctype, refid, A, B, C) in ANY order.
    Returns {cid: {"cid", "type", "o", "E"}} including 0 (basic)."""
    todo = {int(c[0]): c for c in cards}
    done = {0: BASIC}
    while todo:
        ready = [cid for cid, c in todo.items() if int(c[2]) in done]
        if not ready:
            raise ValueError("unresolvable reference chain")
        for cid in ready:
            _, ctype, ref, A, B, C = todo.pop(cid)
            rs = done[int(ref)]
            a, b, c = (to_basic(rs, p) for p in (A, B, C))
            done[cid] = {"cid": cid, "type": int(ctype), "o": a,
                         "E": frame_from_abc(a, b, c)}
    return done


def to_basic(sysd, q):
    return sysd["o"] + sysd["E"] @ local_rect(sysd["type"], q)


def from_basic(sysd, x):
    return local_coords(sysd["type"], sysd["E"].T @ (np.asarray(x, float) - sysd["o"]))


def axis_distance(sysd, x):
    """Distance of basic point x from the polar axis of the system (inf if rectangular)."""
    if sysd["type"] == RECT:
        return math.inf
    v = sysd["E"].T @ (np.asarray(x, float) - sysd["o"])
    return math.hypot(v[0], v[1])


def triad(sysd, x):
    """3x3 with COLUMNS = displacement directions (in basic) of a grid located at basic
    point x whose output system is `sysd`.  None on the polar axis."""
    E = sysd["E"]
    if sysd["type"] == RECT:
        return E.copy()
    d = np.asarray(x, float) - sysd["o"]
    ez = E[:, 2]
    perp = d - (d @ ez) * ez            # component away from the z axis
    n = math.sqrt(float(perp @ perp))
    if n == 0:
        return None
    if sysd["type"] == CYL:
        er = perp / n
        return np.column_stack([er, np.cross(ez, er), ez])
    er = unit(d)
    ephi = unit(np.cross(ez, er))
    etheta = np.cross(ephi, er)
    return np.column_stack([er, etheta, ephi])


def skew(r):
    return np.array([[0.0, -r[2], r[1]], [r[2], 0.0, -r[0]], [-r[1], r[0], 0.0]])


def rigid_block(L, r):
    """6x6 rows of the rigid-body matrix of one grid: local displacements/rotations due
    to unit basic translations/rotations of a reference point; r = x_grid - x_ref (basic),
    L = triad (columns in basic).   u = v + w x r = v - [r x] w."""
    out = np.zeros((6, 6))
    out[:3, :3] = L.T
    out[:3, 3:] = -L.T @ skew(r)
    out[3:, 3:] = L.T
    return out


def selfcheck():
    ok = True
    # 1. hand-derived: cylindrical system, z_c = x_basic, x_c = y_basic => y_c = z_basic.
    s = resolve([(1, CYL, 0, [0, 0, 0], [1, 0, 0], [0, 1, 0])])[1]
    ok &= np.allclose(s["E"], [[0, 0, 1], [1, 0, 0], [0, 1, 0]], atol=1e-15)
    ok &= np.allclose(to_basic(s, [32, 90, 10]), [10, 0, 32], atol=1e-13)
    # at that point e_r = y_c = z_basic, e_theta = -x_c = -y_basic, e_z = x_basic
    ok &= np.allclose(triad(s, [10, 0, 32]), [[0, 0, 1], [0, -1, 0], [1, 0, 0]], atol=1e-15)
    # 2. spherical, z_s = y_basic, x_s = z_basic => y_s = x_basic; (50, 45, 90):
    #    local rect = 50*(0, sin45, cos45) -> basic = 50*(sin45, cos45, 0)
    s = resolve([(2, SPH, 0, [0, 0, 0], [0, 1, 0], [0, 0, 1])])[2]
    h = 50 / math.sqrt(2)
    ok &= np.allclose(to_basic(s, [50, 45, 90]), [h, h, 0], atol=1e-13)
    # 3. chain through a cylindrical reference: A = (2, 90deg, 1) in system 1 of test 1
    #    is basic (1, 0, 2); B one unit further along e_r(=z_basic there): z axis = z_basic
    ch = resolve([(1, CYL, 0, [0, 0, 0], [1, 0, 0], [0, 1, 0]),
                  (7, RECT, 1, [2, 90, 1], [3, 90, 1], [2, 90, 2])])[7]
    ok &= np.allclose(ch["o"], [1, 0, 2], atol=1e-14)
    ok &= np.allclose(ch["E"][:, 2], [0, 0, 1], atol=1e-14)
    ok &= np.allclose(ch["E"][:, 0], [1, 0, 0], atol=1e-14)
    # 4. random chains: round trip, orthonormal right-handed frames, triads equal the
    #    normalised partial derivatives of the forward map (finite differences),
    #    distances independent of the describing system
    rng = np.random.default_rng(12345)
    for _ in range(40):
        cards = []
        for k in range(1, 5):
            while True:
                card = (k, int(rng.integers(1, 4)), int(rng.integers(0, k)),
                        _randq(rng), _randq(rng), _randq(rng))
                try:
                    tmp = resolve(cards + [card])
                except Exception:
                    continue
                rs = tmp[card[2]]
                a, b, c = (to_basic(rs, p) for p in card[3:])
                if collinearity(a, b, c)[0] > 0.2:
                    break
            cards.append(card)
        sy = resolve(cards)
        pts = [rng.standard_normal(3) * 3 for _ in range(3)]
        for cid, s in sy.items():
            E = s["E"]
            ok &= np.allclose(E.T @ E, np.eye(3), atol=1e-13)
            ok &= abs(np.linalg.det(E) - 1) < 1e-13
            qs = [from_basic(s, p) for p in pts]
            back = [to_basic(s, q) for q in qs]
            ok &= all(np.allclose(b, p, atol=1e-12) for b, p in zip(back, pts))
            d01 = np.linalg.norm(back[0] - back[1])
            ok &= abs(d01 - np.linalg.norm(pts[0] - pts[1])) < 1e-12
            if s["type"] != RECT and axis_distance(s, pts[0]) > 0.05:
                L = triad(s, pts[0])
                ok &= np.allclose(L.T @ L, np.eye(3), atol=1e-13)
                ok &= abs(np.linalg.det(L) - 1) < 1e-12
                q = qs[0]
                for j in range(3):
                    h = 1e-6
                    dq = np.zeros(3)
                    dq[j] = h
                    dvec = (to_basic(s, q + dq) - to_basic(s, q - dq)) / (2 * h)
                    ok &= np.allclose(unit(dvec), L[:, j], atol=1e-7)
    # 5. rigid_block: rotation about z by w at r = (1, 0, 0) moves the point along +y
    blk = rigid_block(np.eye(3), np.array([1.0, 0, 0]))
    ok &= np.allclose(blk[:3, 5], [0, 1, 0]) and np.allclose(blk[:3, 4], [0, 0, -1])
    return bool(ok)


def _randq(rng):
    return [float(rng.uniform(0.3, 3)), float(rng.uniform(10, 170)),
            float(rng.uniform(-170, 170))]
