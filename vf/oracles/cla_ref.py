"""Reference model for the loads-analysis bookkeeping of C16 (no pyyeti import).

Everything is written from the property text and the docstrings:

* extremes over load cases: keep every raw response, maximum / minimum = largest / smallest
  non-NaN value over the cases, the FIRST presented case wins an exact tie ("running
  extrema" updated only by a strictly better value), label and abscissa come from the
  winning case; a row that is NaN in every case stays NaN and keeps the first case;
* one-column data: column 0 = value of largest magnitude (sign kept), column 1 = value of
  smallest magnitude (sign kept);
* event trees (``form_extreme``): an 'extreme' table of a node is the envelope over all
  leaves below it, taken in depth-first presentation order; labels are built from the
  path of keys according to the documented ``doappend`` table;
* ``apply_uf`` / ``frf_apply_uf``: the docstring formulas on explicit index sets;
* PSD recovery: peak = peak_factor * rms, rms = sqrt(area under the PSD), apparent
  frequency = sqrt(area(f^2 PSD) / area(PSD)); area = trapezoidal rule.

The formulation is deliberately different from the code under test: no running update,
no recursion over 'extreme' dictionaries, no slices / LU caches.
"""
import math

import numpy as np


# ---------------------------------------------------------------------------------------
# extremes of one case
# ---------------------------------------------------------------------------------------

def row_extremes(resp, x):
    """Per row: [max, min] ignoring NaN and the abscissa of the FIRST occurrence.

    A row without any number gives NaN for all four entries.
    """
    resp = np.asarray(resp, dtype=float)
    r = resp.shape[0]
    ext = np.full((r, 2), np.nan)
    ext_x = np.full((r, 2), np.nan)
    for i in range(r):
        row = resp[i]
        ok = np.flatnonzero(~np.isnan(row))
        if ok.size == 0:
            continue
        vals = row[ok]
        hi, lo = vals.max(), vals.min()
        ext[i, 0], ext[i, 1] = hi, lo
        ext_x[i, 0] = x[ok[np.flatnonzero(vals == hi)[0]]]
        ext_x[i, 1] = x[ok[np.flatnonzero(vals == lo)[0]]]
    return ext, ext_x


def frf_extremes(resp, f):
    """Frequency response: max = largest magnitude, min = -max, both at that frequency."""
    ext, ext_x = row_extremes(np.abs(resp), f)
    ext[:, 1] = -ext[:, 0]
    ext_x[:, 1] = ext_x[:, 0]
    return ext, ext_x


def psd_extremes(psd, freq, peak_factor):
    """rms, [pk, -pk], apparent frequency; math.fsum trapezoid per row."""
    psd = np.asarray(psd, dtype=float)
    freq = np.asarray(freq, dtype=float)
    r = psd.shape[0]
    rms = np.full(r, np.nan)
    af = np.full(r, np.nan)
    df = [float(freq[i + 1] - freq[i]) for i in range(freq.size - 1)]
    for i in range(r):
        p = psd[i]
        if np.isnan(p).any():
            continue
        area = math.fsum(df[j] * (p[j] + p[j + 1]) / 2.0 for j in range(len(df)))
        varea = math.fsum(df[j] * (freq[j] ** 2 * p[j] + freq[j + 1] ** 2 * p[j + 1]) / 2.0
                          for j in range(len(df)))
        rms[i] = math.sqrt(area)
        af[i] = math.sqrt(varea) / rms[i] if area > 0 else np.nan
    pk = peak_factor * rms
    return rms, np.column_stack((pk, -pk)), np.column_stack((af, af))


# ---------------------------------------------------------------------------------------
# envelope over parts in presentation order
# ---------------------------------------------------------------------------------------

def _first_best(key, largest):
    """Index of the first non-NaN entry that attains the best value; 0 if all NaN.

    Also returns whether the best value is attained by exactly one entry."""
    ok = ~np.isnan(key)
    if not ok.any():
        return 0, False
    best = key[ok].max() if largest else key[ok].min()
    hits = np.flatnonzero(ok & (key == best))
    return int(hits[0]), hits.size == 1


def _labels(lab, r):
    return [lab] * r if isinstance(lab, str) else list(lab)


def envelope(parts, nslots=None):
    """Envelope of `parts` (presentation order).

    part = dict(ext=(r,1|2) array, ext_x=(r,1|2) array or None, maxlab=str|list,
                minlab=str|list|None, slot=int|None)

    Returns dict with ext (r,2), ext_x (r,2)|None, maxcase, mincase, imax, imin (index of
    the winning part), umax, umin (winner unique), and -- if `nslots` -- the per-case
    arrays mx, mn, mx_x, mn_x (r, nslots) filled by slot.
    """
    r = parts[0]["ext"].shape[0]
    ncol = parts[0]["ext"].shape[1]
    onecol = ncol == 1
    have_x = [p.get("ext_x") is not None for p in parts]
    ext = np.full((r, 2), np.nan)
    ext_x = np.full((r, 2), np.nan) if any(have_x) else None
    out = {"maxcase": [], "mincase": [], "imax": [], "imin": [], "umax": [], "umin": []}
    maxlabs = [_labels(p["maxlab"], r) for p in parts]
    minlabs = [_labels(p["minlab"], r) if p.get("minlab") is not None and not onecol
               else maxlabs[i] for i, p in enumerate(parts)]
    for i in range(r):
        for col in (0, 1):
            src = 0 if onecol else col
            vals = np.array([p["ext"][i, src] for p in parts], dtype=float)
            key = np.abs(vals) if onecol else vals
            w, uniq = _first_best(key, largest=(col == 0))
            ext[i, col] = vals[w]
            if ext_x is not None:
                px = parts[w].get("ext_x")
                ext_x[i, col] = px[i, src] if px is not None else np.nan
            if col == 0:
                out["maxcase"].append(maxlabs[w][i])
                out["imax"].append(w)
                out["umax"].append(uniq)
            else:
                out["mincase"].append(minlabs[w][i])
                out["imin"].append(w)
                out["umin"].append(uniq)
    out["ext"], out["ext_x"] = ext, ext_x
    if nslots is not None:
        for nm in ("mx", "mn", "mx_x", "mn_x"):
            out[nm] = np.full((r, nslots), np.nan)
        for p in parts:
            j = p.get("slot")
            if j is None:
                continue
            out["mx"][:, j] = p["ext"][:, 0]
            out["mn"][:, j] = p["ext"][:, ncol - 1]
            if p.get("ext_x") is not None:
                out["mx_x"][:, j] = p["ext_x"][:, 0]
                out["mn_x"][:, j] = p["ext_x"][:, ncol - 1]
    return out


def srs_envelope(spectra):
    """Element-wise maximum over cases of (rows, nfreq) spectra (no NaN expected)."""
    env = np.array(spectra[0], dtype=float, copy=True)
    for s in spectra[1:]:
        s = np.asarray(s, dtype=float)
        bigger = s > env
        env[bigger] = s[bigger]
    return env


# ---------------------------------------------------------------------------------------
# event trees
# ---------------------------------------------------------------------------------------
# node = {"name": str, "children": [node, ...]}           (non-base event)
# leaf = {"name": str, "table": {cat: table}}              (base event)
# table = dict(ext (r,2), ext_x (r,2)|None, maxcase [r], mincase [r], srs {q: (rows,nf)}|None,
#              labels [r])

def tree_leaves(node, path=()):
    """Depth-first list of (path-of-keys, leaf) below `node` (node's own name excluded)."""
    if "table" in node:
        return [(path, node)]
    out = []
    for ch in node["children"]:
        out += tree_leaves(ch, path + (ch["name"],))
    return out


def make_label(path, leaflabel, doappend):
    """Documented doappend table, written on the path of keys from the child of the node
    that owns the 'extreme' entry down to the base event, plus the base event's own label."""
    if doappend == 0:
        return path[0]
    if doappend == 1:
        return ",".join(path + (leaflabel,))
    if doappend == 2:
        return ",".join(path)
    if doappend == 3:
        return leaflabel
    raise ValueError(doappend)


def tree_extreme(node, cat, doappend, case_order=None):
    """Reference 'extreme' table of category `cat` for the non-base `node`.

    Rows are matched by label: the result has the union of the row labels (order not
    defined here -- compare by label), NaN / 'n/a' where an event does not have the row.
    """
    children = node["children"]
    if case_order is not None:
        byname = {c["name"]: c for c in children}
        children = [byname[str(n)] for n in case_order]
    leaves = []          # (child index, path, leaf table)
    for j, ch in enumerate(children):
        if "table" in ch:
            sub = [((ch["name"],), ch)]
        else:
            sub = tree_leaves(ch, (ch["name"],))
        for path, lf in sub:
            if cat in lf["table"]:
                leaves.append((j, path, lf["table"][cat]))
    if not leaves:
        return None
    labels = []
    for _, _, t in leaves:
        for lb in t["labels"]:
            if lb not in labels:
                labels.append(lb)
    any_x = any(t["ext_x"] is not None for _, _, t in leaves)
    n = len(children)
    res = {"labels": labels, "cases": [c["name"] for c in children], "rows": {}}
    for lb in labels:
        ent = {}
        for col, nm, largest in ((0, "max", True), (1, "min", False)):
            vals, who = [], []
            for j, path, t in leaves:
                if lb in t["labels"]:
                    vals.append(t["ext"][t["labels"].index(lb), col])
                    who.append((j, path, t))
            vals = np.array(vals, dtype=float)
            w, uniq = _first_best(vals, largest)
            j, path, t = who[w]
            i = t["labels"].index(lb)
            leaflab = (t["maxcase"] if col == 0 else t["mincase"])[i]
            ent[nm] = vals[w]
            ent[nm + "case"] = make_label(path, leaflab, doappend)
            ent[nm + "_unique"] = uniq
            ent[nm + "_x"] = (t["ext_x"][i, col] if t["ext_x"] is not None else np.nan)
            # per-child columns: envelope of each child's own leaves
            percase = np.full(n, np.nan)
            percase_x = np.full(n, np.nan)
            for jj in range(n):
                sub = [(v, tt) for v, (j2, _, tt) in zip(vals, who) if j2 == jj]
                if not sub:
                    continue
                sv = np.array([s[0] for s in sub], dtype=float)
                ww, _ = _first_best(sv, largest)
                percase[jj] = sv[ww]
                tt = sub[ww][1]
                if tt["ext_x"] is not None:
                    percase_x[jj] = tt["ext_x"][tt["labels"].index(lb), col]
            ent["m" + ("x" if col == 0 else "n")] = percase
            ent["m" + ("x" if col == 0 else "n") + "_x"] = percase_x
        res["rows"][lb] = ent
    res["any_x"] = any_x
    # SRS: only meaningful when every leaf has the same rows (caller guarantees)
    qs = None
    for _, _, t in leaves:
        if t.get("srs"):
            qs = list(t["srs"])
            break
    if qs:
        res["srs_ext"], res["srs_cases"] = {}, {}
        for q in qs:
            specs = [(j, t["srs"][q]) for j, _, t in leaves if t.get("srs")]
            res["srs_ext"][q] = srs_envelope([s for _, s in specs])
            per = {}
            for j, s in specs:
                per[j] = srs_envelope([per[j], s]) if j in per else np.array(s, copy=True)
            res["srs_cases"][q] = per
    return res


# ---------------------------------------------------------------------------------------
# uncertainty factors
# ---------------------------------------------------------------------------------------

def merge_uf(old, new, method="replace"):
    out = []
    for o, n in zip(old, new):
        if n is None:
            out.append(o)
        elif method == "replace":
            out.append(n)
        elif method == "multiply":
            out.append(o * n)
        else:
            out.append(method(o, n))
    return tuple(out)


def _full(mat, n, dtype=float):
    if mat is None:
        return np.eye(n)
    mat = np.asarray(mat)
    return np.diag(mat) if mat.ndim == 1 else mat


def partitions(n, nrb, rf):
    rb = list(range(nrb))
    if rf is None:
        rfi = []
    else:
        rf = np.atleast_1d(rf)
        rfi = [int(i) for i in (np.flatnonzero(rf) if rf.dtype == bool else rf)]
    el = [i for i in range(nrb, n) if i not in set(rfi)]
    return rb, el, rfi


def apply_uf_ref(a, v, d, pg, uf, m, b, k, nrb, rf):
    """DR_Event.apply_uf docstring, evaluated on explicit index lists.

    a_rb, v_rb * ruf*suf;  a_el, v_el * euf*duf;  a_rf, v_rf = 0
    d_rb = 0;  d_el = euf*inv(k_el)*(suf*F_el - duf*(m_el a_el + b_el v_el)),
    F = m a + b v + k d;  d_rf * euf*suf;  pg * suf
    static part = the suf term, dynamic part = the duf term.
    """
    ruf, euf, duf, suf = uf
    n = a.shape[0]
    rb, el, rfi = partitions(n, nrb, rf)
    M, B, K = _full(m, n), _full(b, n), _full(k, n)
    A, V = np.array(a, copy=True), np.array(v, copy=True)
    ds = np.zeros_like(A)
    dd = np.zeros_like(A)
    scale = 0.0
    for i in rb:
        A[i] = a[i] * (ruf * suf)
        V[i] = v[i] * (ruf * suf)
    for i in rfi:
        A[i] = 0.0
        V[i] = 0.0
    for i in el:
        A[i] = a[i] * (euf * duf)
        V[i] = v[i] * (euf * duf)
    if el:
        ix = np.ix_(el, el)
        av = M[ix] @ a[el] + B[ix] @ v[el]
        F = av + K[ix] @ d[el]
        Ki = np.linalg.inv(K[ix])
        ds[el] = (euf * suf) * np.linalg.solve(K[ix], F)
        dd[el] = -(euf * duf) * np.linalg.solve(K[ix], av)
        terms = np.abs(M[ix]) @ np.abs(a[el]) + np.abs(B[ix]) @ np.abs(v[el]) \
            + np.abs(K[ix]) @ np.abs(d[el])
        scale = float((np.abs(Ki) @ terms).max()) * max(abs(euf * suf), abs(euf * duf), 1.0)
    if rfi:
        ds[rfi] = (euf * suf) * d[rfi]
        scale = max(scale, float(np.abs(d[rfi]).max()) * max(abs(euf * suf), 1.0))
    out = {"a": A, "v": V, "d_static": ds, "d_dynamic": dd, "d": ds + dd,
           "scale": scale, "rb": rb, "el": el, "rf": rfi}
    if pg is not None:
        out["pg"] = pg * suf
    return out


def frf_apply_uf_ref(a, v, d, pg, uf, nrb):
    """DR_Event.frf_apply_uf docstring: rb rows * ruf*suf, others * euf*duf, pg * suf."""
    ruf, euf, duf, suf = uf
    out = {}
    for nm, x in (("a", a), ("v", v), ("d", d)):
        y = np.array(x, copy=True)
        for i in range(y.shape[0]):
            y[i] = x[i] * ((ruf * suf) if i < nrb else (euf * duf))
        out[nm] = y
    if pg is not None:
        out["pg"] = pg * suf
    return out
