"""Independent references for the PSD half of C19 (no pyyeti).

* constant-dB/octave segment:  p(x) = p1 (x/f1)^s,  s = ln(p2/p1)/ln(f2/f1);
  area = p1 f1 L expm1(e L)/(e L)  with  L = ln(f2/f1), e = s + 1  (-> p1 f1 L at e = 0),
  evaluated in mpmath on the exact values of the floats;
* centre-band frequency scales: band edges by the documented rule (equal steps ->
  arithmetic mid points, otherwise geometric), input density constant per band;
  mean-square of an output band = sum of overlap widths x density (math.fsum).
"""
import math

import mpmath as mp

DPS = 40


def seg_slope(f1, p1, f2, p2):
    with mp.workdps(DPS):
        return mp.log(mp.mpf(p2) / mp.mpf(p1)) / mp.log(mp.mpf(f2) / mp.mpf(f1))


def seg_area(f1, p1, f2, p2):
    """Integral of the log-log interpolant from f1 to f2 (mp)."""
    with mp.workdps(DPS):
        f1, p1, f2, p2 = (mp.mpf(v) for v in (f1, p1, f2, p2))
        L = mp.log(f2 / f1)
        e = mp.log(p2 / p1) / L + 1
        x = e * L
        if x == 0:
            return p1 * f1 * L
        return p1 * f1 * L * mp.expm1(x) / x


def seg_value(f, f1, p1, f2, p2):
    """The interpolant at f (mp)."""
    with mp.workdps(DPS):
        f, f1, p1, f2, p2 = (mp.mpf(v) for v in (f, f1, p1, f2, p2))
        s = mp.log(p2 / p1) / mp.log(f2 / f1)
        return p1 * (f / f1) ** s


def spec_area(freq, psd):
    """Total and per-segment areas of one PSD column."""
    segs = [seg_area(freq[i], psd[i], freq[i + 1], psd[i + 1])
            for i in range(len(freq) - 1)]
    with mp.workdps(DPS):
        return mp.fsum(segs), segs


# ------------------------------------------------------------------ band scales

def step_deviation(fc):
    """max |Df/Df[0] - 1| of a centre-frequency vector."""
    d = [fc[i + 1] - fc[i] for i in range(len(fc) - 1)]
    return max(abs(x / d[0] - 1.0) for x in d)


def band_edges(fc, linear):
    """Lower/upper edges of centre-band frequencies `fc` (lists of float).

    linear: edges half a step either side.  log: geometric mid points between
    neighbours; the two outer edges keep the ratio of the adjacent band."""
    n = len(fc)
    if linear:
        d = fc[1] - fc[0]
        return [f - d / 2 for f in fc], [f + d / 2 for f in fc]
    mid = [math.sqrt(fc[i] * fc[i + 1]) for i in range(n - 1)]
    lo0 = fc[0] * (mid[0] / fc[1])
    hi_last = fc[-1] * (fc[-1] / mid[-1])
    return [lo0] + mid, mid + [hi_last]


def band_ms(FLin, FUin, P, lo, hi):
    """Mean-square of the band-constant density inside [lo, hi]."""
    terms = []
    for a, b, p in zip(FLin, FUin, P):
        w = min(hi, b) - max(lo, a)
        if w > 0:
            terms.append(w * p)
    return math.fsum(terms)


def cumulative_ms(FLin, FUin, P, hi):
    return band_ms(FLin, FUin, P, -math.inf, hi)


def selfcheck():
    """mp segment integral against a trapezoid rule on a fine log grid, the s = -1
    limit against its neighbours, and the band model on a hand case."""
    import numpy as np
    ok = True
    for f1, p1, f2, p2 in ((20.0, 0.0053, 150.0, 0.04), (600.0, 0.04, 2000.0, 0.0036),
                           (10.0, 2.0, 40.0, 0.5), (1.0, 1.0, 3.0, 1.0)):
        x = np.exp(np.linspace(np.log(f1), np.log(f2), 400001))
        s = np.log(p2 / p1) / np.log(f2 / f1)
        y = p1 * (x / f1) ** s
        trap = float(np.sum((y[1:] + y[:-1]) * np.diff(x)) / 2)
        ok &= abs(float(seg_area(f1, p1, f2, p2)) - trap) < 1e-9 * trap
    # s = -1 exactly (f2 = 4 f1, p2 = p1 / 4)
    with mp.workdps(DPS):
        a = seg_area(10.0, 2.0, 40.0, 0.5)
        ok &= abs(a - mp.mpf(20) * mp.log(4)) < mp.mpf(10) ** -30
        b = seg_area(10.0, 2.0, 40.0, 0.5 * (1 + 2.0 ** -40))
        ok &= abs(a - b) < abs(a) * 1e-11
        ok &= abs(seg_value(20.0, 10.0, 2.0, 40.0, 0.5) - 1) < mp.mpf(10) ** -30
    # docstring example of rescale: ones on 0:0.25:10 -> bands of width 5 at 0, 5, 10
    fin = [0.25 * i for i in range(41)]
    lo, hi = band_edges(fin, True)
    olo, ohi = band_edges([0.0, 5.0, 10.0], True)
    ms = [band_ms(lo, hi, [1.0] * 41, a_, b_) for a_, b_ in zip(olo, ohi)]
    ok &= ms == [2.625, 5.0, 2.625]
    lo, hi = band_edges([1.0, 2.0, 4.0, 8.0], False)
    ok &= abs(lo[0] - 2 ** -0.5) < 1e-15 and abs(hi[-1] - 8 * 2 ** 0.5) < 1e-14
    return bool(ok)
