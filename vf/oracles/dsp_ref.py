"""Independent references for the signal half of C19 (no pyyeti, no scipy.signal).

resample: the documented filter (Kaiser-windowed sinc, cut-off at the lower of the two
Nyquist rates, DC gain p, 2*pts*max(p,q)+1 taps after reducing p/q), its exact
frequency response, the exact steady-state error bound for a sinusoid, and the
documented pipeline (remove mean, zero-stuff, centred FIR, decimate, restore mean)
written with numpy.convolve.

fixtime: brute-force nearest / latest-previous source sample for every new time.
"""
import math

import numpy as np


# ------------------------------------------------------------------ resample

def reduce_pq(p, q):
    g = math.gcd(p, q)
    return p // g, q // g


def lanczos_fir(p, q, pts, beta=14.0):
    """The documented filter, from the definitions of the Kaiser window and sinc."""
    p, q = reduce_pq(p, q)
    M = 2 * pts * max(p, q)
    n = np.arange(M + 1, dtype=float)
    r = 2.0 * n / M - 1.0
    w = np.i0(beta * np.sqrt(np.clip(1.0 - r * r, 0.0, None))) / np.i0(beta)
    fc = min(1.0 / p, 1.0 / q) / 2.0              # cycles per up-sampled sample
    x = 2.0 * fc * (n - M / 2.0)
    with np.errstate(invalid="ignore", divide="ignore"):
        s = np.where(x == 0, 1.0, np.sin(np.pi * x) / (np.pi * x))
    return p * w * 2.0 * fc * s


def gain(fir, p, f):
    """G(f) = (1/p) sum_j fir[j] cos(2 pi f (j - M/2)) -- zero-phase response per unit
    input amplitude, f in cycles per up-sampled sample (array ok)."""
    M = len(fir) - 1
    j = np.arange(M + 1) - M / 2.0
    f = np.atleast_1d(np.asarray(f, dtype=float))
    return (np.cos(2 * np.pi * np.outer(f, j)) @ fir) / p


def sinus_bound(fir, p, f0):
    """Rigorous steady-state bound on |y - x(t)| / amplitude for a unit sinusoid of
    f0 cycles per ORIGINAL sample:  |G(f0/p) - 1| + sum_{k=1}^{p-1} |G(f0/p + k/p)|
    (pass-band error + the p-1 images of zero stuffing)."""
    fu = f0 / p
    g = gain(fir, p, fu + np.arange(p) / p)
    return float(abs(g[0] - 1.0) + np.sum(np.abs(g[1:])))


def pipeline(x, fir, p, q):
    """Documented steps 0-4 along the last axis with the given FIR (p, q reduced)."""
    x = np.asarray(x, dtype=float)
    m = np.mean(x, axis=-1, keepdims=True)
    ln = x.shape[-1]
    up = np.zeros(x.shape[:-1] + (ln * p,))
    up[..., ::p] = x - m
    M = len(fir) - 1
    flat = up.reshape(-1, ln * p)
    out = np.empty_like(flat)
    for i, row in enumerate(flat):
        full = np.convolve(row, fir)               # full[n + M/2] is the centred output
        out[i] = full[M // 2: M // 2 + ln * p]
    out = out.reshape(up.shape)
    return out[..., ::q] + m


def interior(ln, p, q, M):
    """Output indices k whose filter footprint lies inside the record."""
    nout = -(-ln * p // q)
    k = np.arange(nout)
    n = k * q
    return k[(n - M // 2 >= 0) & (n + M // 2 <= (ln - 1) * p)]


# ------------------------------------------------------------------ fixtime

def nearest_sets(told, tnew, slack):
    """For every new time: (dmin, candidates) where candidates are the indices of old
    samples whose distance is within `slack` of the minimum (told sorted or not)."""
    told = np.asarray(told, dtype=float)
    out = []
    for v in np.asarray(tnew, dtype=float):
        d = np.abs(told - v)
        dm = d.min()
        out.append((dm, np.nonzero(d <= dm + slack)[0]))
    return out


def previous_index(told_sorted, v):
    """Latest index with told <= v (0 when none)."""
    i = int(np.searchsorted(told_sorted, v, side="right")) - 1
    return max(i, 0)


def selfcheck():
    ok = True
    # Kaiser window end value 1/I0(beta), centre 1; taps; DC gain ~ p; symmetry
    for p, q, pts in ((3, 1, 10), (1, 5, 10), (4, 6, 7), (7, 3, 25)):
        fir = lanczos_fir(p, q, pts)
        pr, qr = reduce_pq(p, q)
        M = 2 * pts * max(pr, qr)
        ok &= len(fir) == M + 1
        ok &= bool(np.allclose(fir, fir[::-1], rtol=0, atol=1e-15))
        ok &= abs(fir[M // 2] - pr * min(1 / pr, 1 / qr)) < 1e-15
        ok &= abs(gain(fir, pr, 0.0)[0] - 1.0) < 1e-3
        # documented: on up-sampling every original point is kept (taps at multiples
        # of p are 0 except the centre)
        if qr == 1:
            z = fir[M // 2 + pr::pr]
            ok &= bool(np.all(np.abs(z) < 1e-15))
    # pipeline against a literal double loop of the documented steps
    rs = np.random.RandomState(3)
    for p, q, pts, ln in ((2, 1, 3, 21), (1, 3, 2, 17), (3, 2, 2, 11)):
        fir = lanczos_fir(p, q, pts)
        M = len(fir) - 1
        x = rs.randn(ln)
        m = x.mean()
        up = np.zeros(ln * p)
        up[::p] = x - m
        want = []
        for k in range(-(-ln * p // q)):
            acc = 0.0
            for j in range(M + 1):
                i = k * q + M // 2 - j
                if 0 <= i < ln * p:
                    acc += fir[j] * up[i]
            want.append(acc + m)
        ok &= bool(np.allclose(pipeline(x, fir, p, q), want, rtol=0, atol=1e-13))
    ns = nearest_sets([0.0, 1.0, 5.0, 6.0], [3.0, 4.0], 0.0)
    ok &= list(ns[0][1]) == [1, 2] and list(ns[1][1]) == [2]
    ok &= previous_index(np.array([0.0, 4.0]), 4.0) == 1
    ok &= previous_index(np.array([0.0, 4.0]), 3.9) == 0
    return bool(ok)
