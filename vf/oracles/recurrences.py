"""Literal transcriptions of two *documented* recurrences.  No pyyeti imports.

``newmark``  -- the class docstring of SolveNewmark (Nastran Theoretical Manual 11.4):

    A u[n+2] = (F[n+2] + F[n+1] + F[n])/3 + N[n+1] + A1 u[n+1] + A0 u[n]
    A  =  M/h^2 + B/(2h) + K/3,   A1 = 2M/h^2 - K/3,   A0 = -M/h^2 + B/(2h) - K/3
    start-up:  u[-1] = u0 - v0 h,  F[-1] = K u[-1] + B v0,  F[0] := K u0 + B v0
    v[n] = (u[n+1] - u[n-1])/(2h),  a[n] = (u[n+1] - 2u[n] + u[n-1])/h^2
    last step: one extra step with the linearly extrapolated force 2F[-1] - F[-2]
    N[j] = sum_i T_i @ func_i(d, j, h, **args_i)  (d holds u[-1] in its last column for
    the j = 0 call); z[key][:, j] = func_i(d, j, h, ...)
    rf DOF: solved statically, initial conditions ignored, v = a = 0.
    v[0] is the prescribed initial velocity (an input, like d[0]).

``cdf`` -- the class docstring of SolveCDF (Vpart / alpha form); the uncoupled
integration coefficients F, G, A, B, Fp, Gp, Ap, Bp are NOT taken from pyYeti: they are
the exact one-step maps of  m q'' + c q' + k q = P(t)  (P linear over the step) obtained
from Van Loan's augmented matrix exponential in mpmath (``vf.oracles.lti.vanloan``).

Both accept ``noise=(rng, amp)``: every quantity a floating-point implementation has to
round (the normalised coefficient matrices, each freshly computed state) is multiplied
by (1 + amp*N(0,1)), and the factored Newmark matrix A by a normwise amp*max|A|
perturbation.  The spread of the results under amp = 1e-13 is the conditioning of
the *recurrence itself* to step-level round-off (for Newmark: ~ eps/(w h)^2, the
cond(A) ~ M/h^2 amplification) and is what the checks derive their tolerance from.
"""
import numpy as np

from . import lti


def _pert(noise):
    if noise is None:
        return lambda x: x
    rng, amp = noise
    return lambda x: np.asarray(x) * (1.0 + amp * rng.standard_normal(np.shape(x)))


def newmark(M, B, K, F, h, d0=None, v0=None, rf=None, nonlin=None, noise=None):
    """M, B, K dense (n x n; M may be singular or None = identity); F n x nt (nt >= 2);
    rf = indices of residual-flexibility DOF; nonlin = list of (key, func, T, args).
    Returns dict(d, v, a, z)."""
    K = np.array(K, dtype=float)
    n = K.shape[0]
    M = np.eye(n) if M is None else np.array(M, dtype=float)
    B = np.array(B, dtype=float)
    F = np.array(F, dtype=float)
    nt = F.shape[1]
    if nt < 2:
        raise ValueError("transcription needs nt >= 2")
    rf = np.array([] if rf is None else rf, dtype=int)
    nonrf = np.setdiff1d(np.arange(n), rf)
    d = np.zeros((n, nt))
    v = np.zeros((n, nt))
    a = np.zeros((n, nt))
    z = {}
    p = _pert(noise)
    if rf.size:
        d[rf] = np.linalg.solve(K[np.ix_(rf, rf)], F[rf])
    if nonrf.size == 0:
        return dict(d=d, v=v, a=a, z=z)
    ix = np.ix_(nonrf, nonrf)
    M, B, K, F = M[ix], B[ix], K[ix], F[nonrf].copy()
    k = nonrf.size
    u0 = np.zeros(k) if d0 is None else np.asarray(d0, dtype=float)[nonrf]
    w0 = np.zeros(k) if v0 is None else np.asarray(v0, dtype=float)[nonrf]

    A = M / h ** 2 + B / (2 * h) + K / 3
    A1 = 2 * M / h ** 2 - K / 3
    A0 = -M / h ** 2 + B / (2 * h) - K / 3
    if noise is not None:
        # a factorisation of A is backward stable only normwise: the (one) factored
        # matrix is A + dA with |dA| ~ amp*max|A| -- this is what makes massless rows
        # (entries K/3 next to M/h^2) and small w*h sensitive, cond(A) ~ M/(K h^2)
        An = A + noise[1] * np.abs(A).max() * noise[0].standard_normal(A.shape)
        C1 = p(np.linalg.solve(An, p(A1)))
        C0 = p(np.linalg.solve(An, p(A0)))

    def advance(fsum3, N, u1, u0_):
        """A u2 = fsum3/3 + N + A1 u1 + A0 u0"""
        if noise is None:
            return np.linalg.solve(A, fsum3 / 3 + N + A1 @ u1 + A0 @ u0_)
        return p(p(np.linalg.solve(An, p(fsum3 / 3 + N))) + C1 @ u1 + C0 @ u0_)

    D = np.zeros((k, nt))
    D[:, 0] = u0
    um1 = u0 - w0 * h                      # u[-1]
    Fm1 = K @ um1 + B @ w0                 # F[-1]
    F[:, 0] = K @ u0 + B @ w0              # F[0] is replaced
    nonlin = nonlin or []
    for key, func, T, args in nonlin:
        z[key] = None

    def N_of(j):
        tot = np.zeros(k)
        for key, func, T, args in nonlin:
            zj = np.asarray(func(D, j, h, **args), dtype=float)
            if z[key] is None:
                z[key] = np.zeros((zj.shape[0], nt))
            z[key][:, j] = zj
            tot = tot + np.asarray(T, dtype=float) @ zj
        return tot

    D[:, -1] = um1                         # "-1" displacements live in the last column
    N0 = N_of(0)
    D[:, 1] = advance(F[:, 1] + F[:, 0] + Fm1, N0, u0, um1)
    for j in range(2, nt):
        D[:, j] = advance(F[:, j] + F[:, j - 1] + F[:, j - 2], N_of(j - 1),
                          D[:, j - 1], D[:, j - 2])
    Fe = 2 * F[:, -1] - F[:, -2]           # linearly extrapolated force
    ue = advance(Fe + F[:, -1] + F[:, -2], N_of(nt - 1), D[:, -1], D[:, -2])

    U = np.column_stack([um1, D, ue])      # u[-1] .. u[nt]
    V = (U[:, 2:] - U[:, :-2]) / (2 * h)
    Acc = (U[:, 2:] - 2 * U[:, 1:-1] + U[:, :-2]) / h ** 2
    V[:, 0] = w0                           # prescribed initial velocity
    d[nonrf], v[nonrf], a[nonrf] = D, V, Acc
    return dict(d=d, v=v, a=a, z=z)


# ------------------------------------------------------------------------------------

def sdof_coefs(m, c, k, h, dps=30):
    """Exact one-step coefficients of m q'' + c q' + k q = P (P linear over the step):
    q1 = F q0 + G v0 + A P0 + B P1,  v1 = Fp q0 + Gp v0 + Ap P0 + Bp P1."""
    Am = np.array([[0.0, 1.0], [-k / m, -c / m]])
    Bc = np.array([[0.0], [1.0 / m]])
    E, G1, G2 = lti.vanloan(Am, Bc, h, dps)
    f = (lambda x: float(x)) if dps is not None else float
    return dict(F=f(E[0, 0]), G=f(E[0, 1]), Fp=f(E[1, 0]), Gp=f(E[1, 1]),
                A=f(G1[0, 0] - G2[0, 0]), B=f(G2[0, 0]),
                Ap=f(G1[1, 0] - G2[1, 0]), Bp=f(G2[1, 0]))


def coef_grade(m, c, k, h):
    """Documented accuracy grade of the pre-formulated force coefficients A, B, Ap, Bp
    (property C01: error grows like (w h)^-3 for small w h): allowed relative error
    5e-15/g^3 with g = min(w_n h, w_d h), expressed as a multiple (>= 1) of the 1e-13
    noise amplitude after the 200*eps/1e-13 tolerance factor."""
    if k <= 0:
        return 1.0
    wn2 = k / m
    wd2 = abs(wn2 - (c / (2 * m)) ** 2)
    g = np.sqrt(wn2) * h
    if wd2 > 1e-8 * wn2:                 # outside the critical-damping switch
        g = min(g, np.sqrt(wd2) * h)
    return max(1.0, 0.11 / g ** 3)


def cdf(m, C, k, P, h, d0=None, v0=None, order=1, rf=None, dps=30, noise=None):
    """SolveCDF docstring recurrence.  m, k: 1-D (m None = ones); C: full n x n damping
    (its diagonal goes into the coefficients, its off-diagonal part C_od is a force).
    order 0: the force is held over the step (P[i+1] := P[i]).  With ``noise`` the force
    coefficients are perturbed by amp*coef_grade (their documented accuracy grade)."""
    k = np.array(k, dtype=float)
    n = k.size
    m = np.ones(n) if m is None else np.array(m, dtype=float)
    C = np.array(C, dtype=float)
    P = np.array(P, dtype=float)
    nt = P.shape[1]
    rf = np.array([] if rf is None else rf, dtype=int)
    nonrf = np.setdiff1d(np.arange(n), rf)
    d = np.zeros((n, nt))
    v = np.zeros((n, nt))
    a = np.zeros((n, nt))
    p = _pert(noise)
    if rf.size:
        d[rf] = P[rf] / k[rf][:, None]
    if nonrf.size == 0:
        return dict(d=d, v=v, a=a)
    mk, kk, Ck, Pk = m[nonrf], k[nonrf], C[np.ix_(nonrf, nonrf)], P[nonrf]
    nk = nonrf.size
    co = [sdof_coefs(mk[i], Ck[i, i], kk[i], h, dps) for i in range(nk)]
    cf = {key: p(np.array([c[key] for c in co])) for key in co[0]}
    if noise is not None:
        grade = np.array([coef_grade(mk[i], Ck[i, i], kk[i], h) for i in range(nk)])
        for key in ("A", "B", "Ap", "Bp"):
            cf[key] = cf[key] * (1.0 + noise[1] * grade * noise[0].standard_normal(nk))
    Cod = Ck - np.diag(np.diag(Ck))
    Z = np.linalg.inv(np.eye(nk) + cf["Bp"][:, None] * Cod)
    alpha = p(Cod @ Z)
    q = np.zeros(nk) if d0 is None else np.asarray(d0, dtype=float)[nonrf]
    w = np.zeros(nk) if v0 is None else np.asarray(v0, dtype=float)[nonrf]
    Dk = np.zeros((nk, nt))
    Vk = np.zeros((nk, nt))
    Dk[:, 0], Vk[:, 0] = q, w
    Q = Cod @ w
    for i in range(nt - 1):
        P0 = Pk[:, i]
        P1 = Pk[:, i + 1] if order == 1 else Pk[:, i]
        Vpart = cf["Fp"] * q + cf["Gp"] * w + cf["Ap"] * (P0 - Q) + cf["Bp"] * P1
        Q1 = alpha @ Vpart
        qn = p(cf["F"] * q + cf["G"] * w + cf["A"] * (P0 - Q) + cf["B"] * (P1 - Q1))
        wn = p(Vpart - cf["Bp"] * Q1)
        q, w, Q = qn, wn, Q1
        Dk[:, i + 1], Vk[:, i + 1] = q, w
    Ak = (Pk - Ck @ Vk - kk[:, None] * Dk) / mk[:, None]
    d[nonrf], v[nonrf], a[nonrf] = Dk, Vk, Ak
    return dict(d=d, v=v, a=a)


# ------------------------------------------------------------------------------------

def newmark_amplification(M, B, K, h):
    """One-step amplification matrix of the homogeneous recurrence on (u[n+1], u[n])."""
    K = np.array(K, dtype=float)
    n = K.shape[0]
    M = np.eye(n) if M is None else np.array(M, dtype=float)
    B = np.array(B, dtype=float)
    A = M / h ** 2 + B / (2 * h) + K / 3
    A1 = 2 * M / h ** 2 - K / 3
    A0 = -M / h ** 2 + B / (2 * h) - K / 3
    G = np.zeros((2 * n, 2 * n))
    G[:n, :n] = np.linalg.solve(A, A1)
    G[:n, n:] = np.linalg.solve(A, A0)
    G[n:, :n] = np.eye(n)
    return G
