"""Independent reference models.  Nothing in this package imports pyyeti."""
