"""Reference models for the cycle-counting pipeline and the fatigue-damage PSD (C10).

No pyyeti imports.  Everything is written from the documented behaviour:

* :func:`ref_findap`      -- the documented reversal picker: a sample is "the same as the
  previous" when it differs from the *previous adjacent sample* by at most
  ``tol*max|dy|``; the first of a series is the peak; sample 0 always; the last kept
  sample iff it differs from the one before it.  Plain Python loops on Python floats.
* :func:`subtol_runs`     -- facts about runs of consecutive sub-tolerance steps
  (mechanism tags for the known drift defect).
* :func:`auto_edges`      -- the ``getbins`` rule for scalar ``bins`` (0.1% pad, at least
  one float spacing).
* :func:`interval_table`  -- interval-membership binning with the documented
  ``(a, b]`` / ``[a, b)`` rule (loop over cycles and edges, no digitize).
* :func:`sdof_response`   -- exact sampled response of a base-driven oscillator to a
  piecewise-linear base acceleration (Van Loan matrices from vf.oracles.lti, scalar
  recurrence), absolute acceleration and pseudo velocity.
* :func:`test_damage`     -- Rayleigh-peak damage of a T0-second random test per unit
  response variance (closed form, incomplete gamma).
"""
import math

import numpy as np


# -- reversal picking ---------------------------------------------------------------

def _stol(y, tol):
    n = len(y)
    if n < 2:
        return 0.0
    mx = 0.0
    for i in range(n - 1):
        d = abs(y[i + 1] - y[i])
        if d > mx:
            mx = d
    return abs(tol * mx)


def ref_findap(y, tol=1e-6):
    """Boolean list: documented alternating-peak selection.  ``y``: list of floats."""
    y = [float(v) for v in y]
    n = len(y)
    if n == 1:
        return [True]
    stol = _stol(y, tol)
    keep = [0]
    for i in range(1, n):
        if abs(y[i] - y[i - 1]) > stol:
            keep.append(i)
    m = len(keep)
    sel = [False] * n
    sel[0] = True
    for q in range(1, m - 1):
        a, b, c = y[keep[q - 1]], y[keep[q]], y[keep[q + 1]]
        up_then_down = b > a and c < b
        down_then_up = b < a and c > b
        if up_then_down or down_then_up:
            sel[keep[q]] = True
    if m == 2:
        sel[keep[1]] = True
    elif m > 2:
        sel[keep[-1]] = y[keep[-1]] != y[keep[-2]]
    return sel


def dedup_zero_step(y, tol):
    """True when two consecutive *kept* samples are exactly equal (only possible after a
    cumulative sub-tolerance drift that snaps back to the kept value)."""
    y = [float(v) for v in y]
    stol = _stol(y, tol)
    last = y[0]
    for i in range(1, len(y)):
        if abs(y[i] - y[i - 1]) > stol:
            if y[i] == last:
                return True
            last = y[i]
    return False


def subtol_runs(y, tol):
    """Largest excursion inside a run of consecutive sub-tolerance steps.

    A run is an anchor sample followed by samples each within ``stol`` of its
    predecessor (at least one non-zero step); the excursion is max-min over anchor
    and followers.  Returns (stol, largest excursion, number of non-zero sub-tolerance
    steps)."""
    y = [float(v) for v in y]
    stol = _stol(y, tol)
    worst = 0.0
    i, n = 0, len(y)
    nsub = sum(1 for k in range(n - 1) if 0 < abs(y[k + 1] - y[k]) <= stol)
    while i < n - 1:
        j = i
        lo = hi = y[i]
        while j < n - 1 and abs(y[j + 1] - y[j]) <= stol:
            j += 1
            lo = min(lo, y[j])
            hi = max(hi, y[j])
        if j > i:
            ex = hi - lo
            worst = max(worst, ex)
            i = j
        else:
            i += 1
    return stol, worst, nsub


def first_significant_change(y, tol):
    """Index of the first sample differing from sample 0 by more than stol (None if
    there is none) -- the quantity the accelerated-path source branches on."""
    y = [float(v) for v in y]
    stol = _stol(y, tol)
    for i in range(1, len(y)):
        if abs(y[i] - y[0]) > stol:
            return i
    return None


def mask_predicates(y, mask, tol):
    """The property's statements about a mask.  Returns dict of facts."""
    y = [float(v) for v in y]
    n = len(y)
    stol = _stol(y, tol)
    idx = [i for i in range(n) if mask[i]]
    vals = [y[i] for i in idx]
    starts = bool(idx) and idx[0] == 0
    steps = [vals[i + 1] - vals[i] for i in range(len(vals) - 1)]
    nozero = all(s != 0 for s in steps)
    alt = nozero and all((steps[i] > 0) != (steps[i + 1] > 0)
                         for i in range(len(steps) - 1))
    if vals:
        miss = max(max(y) - max(vals), min(vals) - min(y))
    else:
        miss = float("inf")
    return {"starts_ok": starts, "nozero_ok": nozero, "alt_ok": alt,
            "ext_ok": miss <= stol, "miss": miss, "stol": stol}


# -- bins ---------------------------------------------------------------------------

def auto_edges(nbins, mx, mn, right):
    """getbins rule for scalar ``bins``: ``linspace(mn, mx, bins+1)`` with the closed-out
    end moved outwards by 0.1% of the range -- and by at least one float spacing, so
    that the extreme value always lies inside the half-open bins (equal mx, mn are
    first reset to mx+0.5, mn-0.5)."""
    mx, mn = float(mx), float(mn)
    if mx < mn:
        mx, mn = mn, mx
    elif mx == mn:
        mx, mn = mx + 0.5, mn - 0.5
    bb = np.linspace(mn, mx, int(nbins) + 1)
    p = 0.001 * (mx - mn)
    if right:
        lo = bb[0] - p
        one_below = math.nextafter(mn, -math.inf)
        bb[0] = lo if lo < one_below else one_below
    else:
        hi = bb[-1] + p
        one_above = math.nextafter(mx, math.inf)
        bb[-1] = hi if hi > one_above else one_above
    return bb


def pad_below_ulp(mx, mn, right):
    """True when the 0.1% pad of the automatic bins is too small to move the edge."""
    mx, mn = float(mx), float(mn)
    if mx < mn:
        mx, mn = mn, mx
    elif mx == mn:
        mx, mn = mx + 0.5, mn - 0.5
    p = 0.001 * (mx - mn)
    return (mn - p == mn) if right else (mx + p == mx)


def covers(edges, mx, mn, right):
    """Do the half-open bins defined by ``edges`` contain both mn and mx?"""
    lo, hi = float(edges[0]), float(edges[-1])
    mx, mn = float(mx), float(mn)
    if mx < mn:
        mx, mn = mn, mx
    if right:
        return lo < mn and mx <= hi
    return lo <= mn and mx < hi


def which_bin(v, edges, right):
    """Index of the documented half-open interval containing v, or None."""
    for i in range(len(edges) - 1):
        a, b = edges[i], edges[i + 1]
        if right:
            if a < v <= b:
                return i
        else:
            if a <= v < b:
                return i
    return None


def interval_table(cycles, amp_edges, mean_edges, right):
    """table[i_mean][j_amp] = sum of counts of the cycles whose mean lies in mean bin i
    and amplitude in amp bin j.  Also returns the number of cycles left out."""
    amp_edges = [float(v) for v in amp_edges]
    mean_edges = [float(v) for v in mean_edges]
    tab = [[0.0] * (len(amp_edges) - 1) for _ in range(len(mean_edges) - 1)]
    out = 0
    for row in cycles:
        amp, mean, cnt = float(row[0]), float(row[1]), float(row[2])
        j = which_bin(amp, amp_edges, right)
        i = which_bin(mean, mean_edges, right)
        if i is None or j is None:
            out += 1
        else:
            tab[i][j] += cnt
    return tab, out


# -- oscillator ---------------------------------------------------------------------

def sdof_response(sig, sr, freq, Q, resp):
    """Exact samples of the response of  z'' + 2 zeta w z' + w^2 z = -u(t)  to the
    piecewise-linear base acceleration through the samples ``sig`` (zero before the
    first sample, the system at rest one step before it).

    resp = 'absacce': z'' + u = -(2 zeta w z' + w^2 z);   'pvelo': w * z.
    """
    from vf.oracles import lti
    w = 2 * math.pi * float(freq)
    zeta = 1.0 / (2.0 * Q)
    h = 1.0 / float(sr)
    A = np.array([[0.0, 1.0], [-w * w, -2 * zeta * w]])
    Bc = np.array([[0.0], [-1.0]])
    E, G1, G2 = lti.vanloan(A, Bc, h)
    e11, e12, e21, e22 = (float(E[0, 0]), float(E[0, 1]), float(E[1, 0]),
                          float(E[1, 1]))
    g11, g12 = float(G1[0, 0]), float(G1[1, 0])
    g21, g22 = float(G2[0, 0]), float(G2[1, 0])
    u = [0.0] + [float(v) for v in sig]
    z = v = 0.0
    out = np.empty(len(u) - 1)
    c_v, c_z = -2 * zeta * w, -w * w
    for k in range(len(u) - 1):
        u0 = u[k]
        du = u[k + 1] - u0
        z, v = (e11 * z + e12 * v + g11 * u0 + g21 * du,
                e21 * z + e22 * v + g12 * u0 + g22 * du)
        out[k] = (c_v * v + c_z * z) if resp == "absacce" else w * z
    return out


def test_damage(freq, T0, b, resp):
    """Damage indicator of a T0-second stationary Gaussian narrow-band test per unit
    response variance**(b/2): N0 * E[A^b] for Rayleigh peaks, N0 = f*T0.  For the
    absolute-acceleration method (DiMaggio et al.) the peak distribution is truncated
    at the expected largest peak sqrt(2 ln N0) sigma; for the pseudo-velocity method
    (McNeill) it is not."""
    from scipy import special
    N0 = float(freq) * float(T0)
    full = 2.0 ** (b / 2) * math.gamma(b / 2 + 1)
    if resp == "absacce":
        return N0 * full * float(special.gammainc(b / 2 + 1, math.log(N0)))
    return N0 * full


def miles_variance(psd, freq, Q, resp):
    """Documented relation between a flat acceleration PSD and the response variance."""
    if resp == "absacce":
        return math.pi / 2 * freq * Q * psd
    return Q * psd / (8 * math.pi * freq)


def front_window(n_total, npts):
    """(1 - cos)/2 taper over the first ``npts`` samples (0 at the first, 1 at the
    npts-th), ones elsewhere."""
    v = np.ones(n_total)
    k = np.arange(npts)
    v[:npts] = (1 - np.cos(np.pi * k / (npts - 1))) / 2
    return v
