"""Frequency-domain reference for  (-W^2 M + iW B + K) d = F  (C02).  No pyyeti imports.

The reference works on the UNPARTITIONED matrices: for every frequency one dense
``numpy.linalg.solve`` over all dynamic (= non residual-flexibility) rows at once, a
static solve ``K[rf,rf] d = F[rf]`` for the residual-flexibility rows, and then the
*documented* rules of ``fsolve``:

* rigid-body rows:  a = M_rb^-1 F,  v = a/(iW),  d = -a/W^2;  v and d are zero where
  W == 0;  d / v / a are returned only when the letter is in ``incrb`` (zero otherwise);
* residual-flexibility rows: d static at every frequency; v = iW d and a = -W^2 d unless
  ``rf_disp_only`` (then zero);
* elastic rows: v = iW d, a = -W^2 d.

At W == 0 the dynamic matrix is singular when rigid-body rows exist, so the elastic rows
are solved from ``K[el,el]`` there (the blocks are uncoupled on the documented domain).

``pre_eig``: the rb / rf index sets refer to the modes of ``eigh(K, M)`` (ascending).  The
reference does its own eigensolution, applies the rules in those coordinates and maps
back with the mode-shape matrix; the result does not depend on eigenvector signs or on
the basis chosen inside a degenerate subspace provided each of rb / rf contains whole
eigenvalue clusters (the generator guarantees that; the perturbation spread exposes it
otherwise).

Also here: the conditioning-by-perturbation tolerance of DESIGN 4.2, a round-off model
of complex-mode (state-space eigen-decomposition) methods that is used ONLY to widen the
tolerance for SolveUnc's coupled route (never as a reference value), and an independent
model of ``solvepsd``.
"""
import numpy as np

EPS = np.finfo(float).eps


def full(x, n, none_is_identity=True):
    """None / 1-D diagonal / 2-D  ->  dense n x n (complex)."""
    if x is None:
        return np.eye(n, dtype=complex) if none_is_identity else np.zeros((n, n), complex)
    x = np.asarray(x)
    if x.ndim == 1:
        return np.diag(x).astype(complex)
    return x.astype(complex)


def _idx(pv, n):
    if pv is None:
        return np.zeros(0, int)
    pv = np.atleast_1d(np.asarray(pv))
    if pv.dtype == bool:
        return np.nonzero(pv)[0]
    return np.sort(pv.astype(int) % n) if pv.size else np.zeros(0, int)


def _safe_solve(A, b):
    try:
        return np.linalg.solve(A, b)
    except np.linalg.LinAlgError:
        return np.full(np.shape(b), np.inf, complex)


def _stack_solve(H, rhs):
    """numpy.linalg.solve over a stack; an exactly singular member yields inf (the
    caller's conditioning test then refuses that frequency)."""
    try:
        return np.linalg.solve(H, rhs)
    except np.linalg.LinAlgError:
        out = np.empty(rhs.shape, complex)
        for q in range(H.shape[0]):
            try:
                out[q] = np.linalg.solve(H[q], rhs[q])
            except np.linalg.LinAlgError:
                out[q] = np.inf
        return out


def all_included(M, B, K, F, freq, rb=None, rf=None):
    """d, v, a (n x nf) with every rigid-body and residual-flexibility term included.

    Returns (d, v, a, info); info["rb_rule_gap"] compares the rigid-body rows of the
    unpartitioned dense solve with the a = F/m rule (they coincide on the documented
    domain; a large gap means the generated system is outside that domain).
    """
    K = np.asarray(K)
    n = K.shape[0]
    M, B, K = full(M, n), full(B, n), full(K, n)
    F = np.asarray(F).astype(complex)
    W = 2 * np.pi * np.asarray(freq, dtype=float)
    nf = W.size
    rb, rf = _idx(rb, n), _idx(rf, n)
    isrf = np.zeros(n, bool)
    isrf[rf] = True
    isrb = np.zeros(n, bool)
    isrb[rb] = True
    dyn = np.nonzero(~isrf)[0]
    el = np.nonzero(~isrf & ~isrb)[0]
    d = np.zeros((n, nf), complex)
    v = np.zeros((n, nf), complex)
    a = np.zeros((n, nf), complex)
    info = {"rb_rule_gap": 0.0}

    if rf.size:
        d[rf] = _safe_solve(K[np.ix_(rf, rf)], F[rf])
    nz = W != 0
    if dyn.size:
        Md, Bd, Kd = (X[np.ix_(dyn, dyn)] for X in (M, B, K))
        if nz.any():
            Wn = W[nz]
            H = (-(Wn ** 2)[:, None, None] * Md + 1j * Wn[:, None, None] * Bd + Kd)
            rhs = F[dyn][:, nz].T[:, :, None]
            x = _stack_solve(H, rhs)
            # one step of iterative refinement with the residual in extended precision:
            # the reference is then accurate to the componentwise conditioning, i.e.
            # better than any plain double-precision LU it is compared with
            LD = np.clongdouble
            Wl = Wn.astype(np.longdouble)
            Hl = (-(Wl ** 2)[:, None, None] * Md.astype(LD)
                  + LD(1j) * Wl[:, None, None] * Bd.astype(LD) + Kd.astype(LD))
            with np.errstate(all="ignore"):
                res = rhs.astype(LD) - np.einsum("fij,fjk->fik", Hl, x.astype(LD))
                res = res.astype(complex)
                good = np.isfinite(res).all(axis=(1, 2)) & np.isfinite(x).all(axis=(1, 2))
                if good.any():
                    x[good] = x[good] + _stack_solve(H[good], res[good])
            d[np.ix_(dyn, np.nonzero(nz)[0])] = x[:, :, 0].T
        if (~nz).any():
            z = np.nonzero(~nz)[0]
            if rb.size == 0:
                d[np.ix_(dyn, z)] = _safe_solve(Kd, F[dyn][:, z])
            elif el.size:
                d[np.ix_(el, z)] = _safe_solve(K[np.ix_(el, el)], F[el][:, z])
    v[:] = 1j * W * d
    a[:] = -(W ** 2) * d
    if rb.size:
        a_rb = np.linalg.solve(M[np.ix_(rb, rb)], F[rb])
        v_rb = np.zeros_like(a_rb)
        d_rb = np.zeros_like(a_rb)
        v_rb[:, nz] = a_rb[:, nz] / (1j * W[nz])
        d_rb[:, nz] = -a_rb[:, nz] / W[nz] ** 2
        if nz.any():
            den = np.abs(a_rb[:, nz]).max(axis=0)
            with np.errstate(invalid="ignore"):
                gap = np.abs(a[rb][:, nz] - a_rb[:, nz]).max(axis=0)
            ok = (den > 0) & np.isfinite(gap)
            if ok.any():
                info["rb_rule_gap"] = float((gap[ok] / den[ok]).max())
        d[rb], v[rb], a[rb] = d_rb, v_rb, a_rb
    return d, v, a, info


def apply_options(d, v, a, rb, rf, incrb, rf_disp_only):
    """The incrb / rf_disp_only rules on an all-included solution (copies)."""
    d, v, a = d.copy(), v.copy(), a.copy()
    n = d.shape[0]
    rb, rf = _idx(rb, n), _idx(rf, n)
    if rb.size:
        if "d" not in incrb:
            d[rb] = 0
        if "v" not in incrb:
            v[rb] = 0
        if "a" not in incrb:
            a[rb] = 0
    if rf.size and rf_disp_only:
        v[rf] = 0
        a[rf] = 0
    return d, v, a


def modal_basis(M, K):
    """Own eigensolution for the pre_eig reference: (w, phi) with phi^H M phi = I."""
    from scipy.linalg import eigh
    K = np.asarray(K)
    n = K.shape[0]
    Kf = full(K, n)
    Mf = full(M, n)
    cplx = (np.abs(Kf.imag).max() > 0) or (np.abs(Mf.imag).max() > 0)
    if not cplx:
        Kf, Mf = Kf.real, Mf.real
    # symmetrise: eigh reads one triangle only
    Kh = (Kf + Kf.conj().T) / 2
    Mh = (Mf + Mf.conj().T) / 2
    w, phi = eigh(Kh, Mh)
    return w, phi


def all_included_pre_eig(M, B, K, F, freq, rb=None, rf=None):
    """Modal-space pieces for pre_eig=True: returns (phi, dm, vm, am, info)."""
    K = np.asarray(K)
    n = K.shape[0]
    w, phi = modal_basis(M, K)
    Bm = phi.conj().T @ full(B, n) @ phi
    Fm = phi.conj().T @ np.asarray(F).astype(complex)
    dm, vm, am, info = all_included(None, Bm, w.astype(complex), Fm, freq, rb, rf)
    info["w"] = w
    return phi, dm, vm, am, info


def solve(M, B, K, F, freq, rb=None, rf=None, incrb="dva", rf_disp_only=False,
          pre_eig=False):
    """Reference d, v, a for one option set."""
    if pre_eig:
        phi, dm, vm, am, info = all_included_pre_eig(M, B, K, F, freq, rb, rf)
        dm, vm, am = apply_options(dm, vm, am, rb, rf, incrb, rf_disp_only)
        return phi @ dm, phi @ vm, phi @ am, info
    d, v, a, info = all_included(M, B, K, F, freq, rb, rf)
    d, v, a = apply_options(d, v, a, rb, rf, incrb, rf_disp_only)
    return d, v, a, info


# -- conditioning by perturbation (DESIGN 4.2) -----------------------------------------

def perturb(r, x, delta=1e-13, symmetric=False):
    """x * (1 + delta*u), u uniform in [-1, 1]; real and imaginary parts separately."""
    if x is None:
        return None
    x = np.asarray(x)
    u = r.uniform(-1, 1, x.shape)
    if symmetric and x.ndim == 2:
        u = np.triu(u) + np.triu(u, 1).T
    if np.iscomplexobj(x):
        u2 = r.uniform(-1, 1, x.shape)
        if symmetric and x.ndim == 2:
            u2 = np.triu(u2) + np.triu(u2, 1).T
        return x.real * (1 + delta * u) + 1j * x.imag * (1 + delta * u2)
    return x * (1 + delta * u)


def perturb_normwise(r, X, blocks, delta=1e-13, scale="row"):
    """X + E with |E_ij| <= delta * max_j |X_ij| inside each index block (dense, complex).

    Models the backward error of a dense LU-type solver, which is small relative to the
    row norms of the block it factorises, not relative to each entry.  Structural zeros
    between blocks stay zero.  scale="global": |E_ij| <= delta * max |X| of the block
    (backward error of an eigensolver, which is small relative to the norm of the matrix).
    """
    X = np.array(X, dtype=complex)
    for blk in blocks:
        blk = np.asarray(blk, int)
        if blk.size < 2:
            continue
        ix = np.ix_(blk, blk)
        sub = X[ix]
        rowmax = np.abs(sub).max(axis=1)
        if scale == "global":
            rowmax = np.full(rowmax.shape, rowmax.max())
        u = r.uniform(-1, 1, sub.shape) + 1j * r.uniform(-1, 1, sub.shape)
        X[ix] = sub + delta * rowmax[:, None] * u / np.sqrt(2)
    return X


def spread(ref, copies):
    """max_k |copy_k - ref| element-wise."""
    s = np.zeros(np.shape(ref))
    for c in copies:
        with np.errstate(invalid="ignore"):
            e = np.abs(c - ref)
        e = np.where(np.isfinite(e), e, np.inf)
        s = np.maximum(s, e)
    return s


def column_tol(ref, sig, delta=1e-13, factor=200.0, floor=1e-13, rows=None):
    """Per-column tolerance and amplification.

    scale_j = max_i |ref[i, j]| (over `rows`), sig_j = max_i sig[i, j];
    tol_j = factor * (sig_j / delta) * eps + floor * scale_j;
    amp_j = sig_j / (delta * scale_j)  (first-order condition number of the column).
    """
    ref = np.asarray(ref)
    if rows is not None:
        ref, sig = ref[rows], sig[rows]
    if ref.shape[0] == 0:
        z = np.zeros(ref.shape[1])
        return z, z, z
    scale = np.abs(ref).max(axis=0)
    sg = sig.max(axis=0)
    tol = factor * (sg / delta) * EPS + floor * scale
    with np.errstate(divide="ignore", invalid="ignore"):
        amp = np.where(scale > 0, sg / (delta * scale), np.where(sg > 0, np.inf, 0.0))
    return tol, amp, scale


# -- round-off model of a complex-mode (state-space) method ---------------------------

def modal_route_bound(M, B, K, F, freq):
    """Per-frequency bound on the round-off of ANY method that obtains d through the
    eigen-decomposition  A = U L U^-1  of  A = [[-M^-1 B, -M^-1 K], [I, 0]]  and the sum
    d = U_d (iW - L)^-1 U^-1 [M^-1 F; 0]   (SolveUnc's coupled route).

    Two terms, both computed from the inputs alone (never from pyYeti's output):

    * backward error of the eigensolver, eps*||A_b|| on the balanced matrix, pushed
      through the resolvent:  |dy_i| <= t_i ||R_b[i,:]|| ||E|| ||y_b||;
    * inversion of U and cancellation in the modal sum:
      eps * cond(U) * |U_d| (|U^-1| |M^-1 F| / |iW - L|)
      (at high frequency the 1/W terms of the individual modes must cancel to leave
      the 1/W^2 displacement; at low frequency the large modes must cancel).

    Returns (bound (nf,), cond(U)).  Measured constants on the unchanged tree: the excess
    of SolveUnc's error over the dense-solve tolerance never exceeded 1.5 x this bound
    (6 seeds x 130 coupled systems); the check uses 30 x.
    """
    from scipy.linalg import matrix_balance
    K = np.asarray(K)
    n = K.shape[0]
    M, B, K = full(M, n), full(B, n), full(K, n)
    F = np.asarray(F).astype(complex)
    W = 2 * np.pi * np.asarray(freq, dtype=float)
    nf = W.size
    try:
        Mi = np.linalg.inv(M)
        A = np.zeros((2 * n, 2 * n), complex)
        A[:n, :n] = -Mi @ B
        A[:n, n:] = -Mi @ K
        A[n:, :n] = np.eye(n)
        lam, U = np.linalg.eig(A)
        Ui = np.linalg.inv(U)
        cU = np.linalg.cond(U)
    except np.linalg.LinAlgError:
        return np.full(nf, np.inf), np.inf
    MiF = Mi @ F
    with np.errstate(all="ignore"):
        g = np.abs(Ui[:, :n]) @ np.abs(MiF)
        term2 = EPS * cU * (np.abs(U[n:]) @ (g / np.abs(1j * W[None, :] - lam[:, None]))
                            ).max(axis=0)
        Ab, T = matrix_balance(A, permute=False)
        t = np.diag(T).real
        nA = np.linalg.norm(Ab, 2)
        wb = np.vstack([MiF, np.zeros((n, nf))]) / t[:, None]
        term1 = np.zeros(nf)
        I2 = np.eye(2 * n)
        for j, Wj in enumerate(W):
            try:
                Rb = np.linalg.inv(1j * Wj * I2 - Ab)
            except np.linalg.LinAlgError:
                term1[j] = np.inf
                continue
            yb = Rb @ wb[:, j]
            term1[j] = (t[n:] * np.linalg.norm(Rb[n:], axis=1)).max() \
                * np.linalg.norm(yb) * nA * EPS
    out = term1 + term2
    return np.where(np.isfinite(out), out, np.inf), cU


# -- solvepsd model --------------------------------------------------------------------

def psd_response(unit_solutions, forcepsd, drm, col=None):
    """sum_i PSD_i |H_i|^2 for one DRM quadruple (drma, drmv, drmd, drmf).

    unit_solutions[i] = (d, v, a) for unit force i (n x nf).  Returns psd (rows x nf).
    """
    drma, drmv, drmd, drmf = drm
    forcepsd = np.atleast_2d(np.asarray(forcepsd, dtype=float))
    out = None
    for i, (d, v, a) in enumerate(unit_solutions):
        nf = d.shape[1]
        H = 0
        if drma is not None:
            H = H + np.asarray(drma) @ a
        if drmv is not None:
            H = H + np.asarray(drmv) @ v
        if drmd is not None:
            H = H + np.asarray(drmd) @ d
        if drmf is not None:
            H = H + np.asarray(drmf)[:, [i]] * np.ones((1, nf))
        term = forcepsd[i][None, :] * (H.real ** 2 + H.imag ** 2)
        out = term if out is None else out + term
    return out


def rms_trapezoid(psd, freq):
    return np.sqrt(np.trapezoid(psd, np.asarray(freq, dtype=float), axis=1))
