"""Exact sampled response of linear time-invariant systems under zero- or first-order
hold (Van Loan's augmented-matrix construction).  No pyyeti imports.

    x' = A x + Bc u(t),   u piecewise constant (order 0) or piecewise linear (order 1)

    exp(h * [[A, Bc, 0], [0, 0, I/h], [0, 0, 0]])  =  [[E, G1, G2], ...]
    x[k+1] = E x[k] + G1 u[k] + G2 (u[k+1] - u[k])            (order 1)
    x[k+1] = E x[k] + G1 u[k]                                 (order 0)

Two engines: float64 (scipy.linalg.expm) for bulk use and mpmath (``dps`` digits, the
recurrence itself carried in mp) as the reference of the reference.
"""
import numpy as np


def vanloan(A, Bc, h, dps=None):
    """Return (E, G1, G2).  dps=None -> float64 arrays, else mpmath matrices."""
    A = np.atleast_2d(A)
    Bc = np.atleast_2d(Bc)
    n, r = Bc.shape
    if dps is None:
        from scipy.linalg import expm
        Z = np.zeros((n + 2 * r, n + 2 * r), dtype=np.result_type(A, Bc, float))
        Z[:n, :n] = A
        Z[:n, n:n + r] = Bc
        Z[n:n + r, n + r:] = np.eye(r) / h
        X = expm(Z * h)
        return X[:n, :n], X[:n, n:n + r], X[:n, n + r:]
    import mpmath as mp
    with mp.workdps(dps):
        N = n + 2 * r
        Z = mp.zeros(N, N)
        cplx = np.iscomplexobj(A) or np.iscomplexobj(Bc)
        conv = (lambda z: mp.mpc(complex(z))) if cplx else (lambda z: mp.mpf(float(z)))
        hh = mp.mpf(float(h))
        for i in range(n):
            for j in range(n):
                if A[i, j] != 0:
                    Z[i, j] = conv(A[i, j]) * hh
            for j in range(r):
                if Bc[i, j] != 0:
                    Z[i, n + j] = conv(Bc[i, j]) * hh
        for j in range(r):
            Z[n + j, n + r + j] = mp.mpf(1)
        X = mp.expm(Z, method="taylor")
        return X[:n, :n], X[:n, n:n + r], X[:n, n + r:]


def simulate_first_order(A, Bc, u, h, x0=None, order=1, dps=None):
    """Sampled states x[:, k] of x' = A x + Bc u for input samples u (r x nt)."""
    A = np.atleast_2d(A)
    Bc = np.atleast_2d(Bc)
    u = np.atleast_2d(u)
    n = A.shape[0]
    nt = u.shape[1]
    E, G1, G2 = vanloan(A, Bc, h, dps)
    if dps is None:
        x = np.zeros((n, nt), dtype=np.result_type(E, u, float))
        if x0 is not None:
            x[:, 0] = x0
        for k in range(nt - 1):
            x[:, k + 1] = E @ x[:, k] + G1 @ u[:, k]
            if order == 1:
                x[:, k + 1] += G2 @ (u[:, k + 1] - u[:, k])
        return x
    import mpmath as mp
    with mp.workdps(dps):
        cplx = np.iscomplexobj(u) or np.iscomplexobj(A) or np.iscomplexobj(Bc) or (
            x0 is not None and np.iscomplexobj(x0))
        conv = (lambda z: mp.mpc(complex(z))) if cplx else (lambda z: mp.mpf(float(z)))
        r = u.shape[0]
        U = [mp.matrix([conv(u[i, k]) for i in range(r)]) for k in range(nt)]
        xk = mp.matrix([conv(0 if x0 is None else x0[i]) for i in range(n)])
        out = np.zeros((n, nt), dtype=complex if cplx else float)
        for k in range(nt):
            for i in range(n):
                out[i, k] = complex(xk[i]) if cplx else float(xk[i])
            if k == nt - 1:
                break
            nxt = E * xk + G1 * U[k]
            if order == 1:
                nxt = nxt + G2 * (U[k + 1] - U[k])
            xk = nxt
        return out


def simulate_second_order(M, B, K, F, h, d0=None, v0=None, order=1, dps=None):
    """d, v, a histories of  M q'' + B q' + K q = F(t)  (dense n x n, M non-singular).

    ``M`` may be None (identity).  Acceleration is evaluated from the equation of
    motion at the samples.
    """
    K = np.atleast_2d(K)
    n = K.shape[0]
    B = np.atleast_2d(B)
    F = np.atleast_2d(F)
    Mi = np.eye(n) if M is None else np.linalg.inv(np.atleast_2d(M))
    A = np.zeros((2 * n, 2 * n), dtype=np.result_type(Mi, B, K, float))
    A[:n, n:] = np.eye(n)
    A[n:, :n] = -Mi @ K
    A[n:, n:] = -Mi @ B
    Bc = np.zeros((2 * n, n), dtype=A.dtype)
    Bc[n:] = Mi
    x0 = np.zeros(2 * n, dtype=np.result_type(A, float if d0 is None else d0,
                                             float if v0 is None else v0))
    if d0 is not None:
        x0[:n] = d0
    if v0 is not None:
        x0[n:] = v0
    x = simulate_first_order(A, Bc, F, h, x0, order, dps)
    d, v = x[:n], x[n:]
    a = Mi @ (F - B @ v - K @ d)
    return d, v, a
