"""Independent readers / reference models for the bulk-data round trips of C13.

No pyyeti import.  Everything is built on the fixed-field splitter and the grammar of
``nas_field`` plus the Quick Reference Guide's description of the entries:

* integer lists with ``THRU`` (SPOINT, CSUPER, EXTRN)
* case-control ``SET n = a, b THRU c, ...`` with ',' continuation
* TABLED1-style tables (``ENDT`` terminated pairs starting in field 9 / the 2nd line)
* DMIG header + column entries (real / complex, symmetric half storage)
* GRID
* CORD2R / CORD2C / CORD2S: chain resolution to basic from the A, B, C points
"""
import math
import re

import numpy as np

from vf.oracles import nas_field as nf


# ---------------------------------------------------------------------------------
# generic

def cards(text, name=None):
    """[(name, [values...], raw_fields)] from fixed-field text (trailing blanks kept
    out); ``name`` filters case-insensitively on the name without '*'."""
    out = []
    for c in nf.split_fixed(text):
        nm = c["name"].rstrip("*").strip()
        if name is not None and nm.upper() != name.upper():
            continue
        vals = [nf.classify(f)[1] for f in c["fields"]]
        raw = list(c["fields"])
        while vals and isinstance(vals[-1], str) and vals[-1] == "":
            vals.pop()
            raw.pop()
        out.append((nm, vals, raw))
    return out


def max_line_length(text):
    return max((len(ln) for ln in text.split("\n")), default=0)


def expand_thru(vals):
    """Integers with 'THRU' triples expanded; raises on anything else."""
    out = []
    i = 0
    while i < len(vals):
        v = vals[i]
        if isinstance(v, str) and v.upper() == "THRU":
            raise ValueError("THRU without a start")
        if i + 2 < len(vals) and isinstance(vals[i + 1], str) \
                and vals[i + 1].upper() == "THRU":
            a, b = v, vals[i + 2]
            if not (isinstance(a, int) and isinstance(b, int) and b >= a):
                raise ValueError(f"bad THRU range {a!r}..{b!r}")
            out.extend(range(a, b + 1))
            i += 3
            continue
        if not isinstance(v, int) or isinstance(v, bool):
            raise ValueError(f"non-integer field {v!r}")
        out.append(v)
        i += 1
    return out


def spoints(text):
    ids = []
    for nm, vals, _ in cards(text, "SPOINT"):
        ids.extend(expand_thru(vals))
    return ids


def csupers(text):
    """{superid: [superid, 0, ids...]}"""
    out = {}
    for nm, vals, _ in cards(text, "CSUPER"):
        out[vals[0]] = list(vals)
    return out


def extrn(text):
    """[(id, component)] as written."""
    out = []
    for nm, vals, _ in cards(text, "EXTRN"):
        if len(vals) % 2:
            raise ValueError("odd number of EXTRN fields")
        out.extend((vals[i], vals[i + 1]) for i in range(0, len(vals), 2))
    return out


def expand_components(pairs):
    """(id, 123456) -> (id,1)...(id,6); component 0 stays (id, 0); digit order kept."""
    out = []
    for i, c in pairs:
        if c == 0:
            out.append((i, 0))
        else:
            out.extend((i, int(ch)) for ch in str(c))
    return out


_SET_START = re.compile(r"^\s*SET\s*([0-9]+)\s*=\s*(.*)$", re.IGNORECASE)
_SET_THRU = re.compile(r"^([0-9]+)\s*THRU\s*([0-9]+)$", re.IGNORECASE)


def case_control_sets(text):
    """{set id: [ids...]} from case-control SET commands (',' at the end of a line
    continues the command)."""
    out = {}
    lines = text.split("\n")
    i = 0
    while i < len(lines):
        m = _SET_START.match(lines[i])
        if not m:
            i += 1
            continue
        sid = int(m.group(1))
        body = m.group(2).strip()
        # ("SET n =" alone on a line: wtset with a very short max_length wraps the whole
        # list off the header line; read on, as pyYeti's reader does -- whether Nastran
        # accepts that layout is not part of the round-trip property)
        while body.endswith(",") or body == "":
            i += 1
            if i >= len(lines):
                raise ValueError("SET ends with a comma at end of file")
            body += " " + lines[i].strip()
        ids = []
        for item in body.split(","):
            item = item.strip()
            t = _SET_THRU.match(item)
            if t:
                a, b = int(t.group(1)), int(t.group(2))
                if b < a:
                    raise ValueError("descending THRU")
                ids.extend(range(a, b + 1))
            elif re.match(r"^[0-9]+$", item):
                ids.append(int(item))
            else:
                raise ValueError(f"bad SET item {item!r}")
        out[sid] = ids
        i += 1
    return out


# ---------------------------------------------------------------------------------
# tables

def tables(text, name="TABLED1"):
    """{tid: (x list, y list, raw x fields, raw y fields)}.  Layout of TABLED1-like
    entries: fields 2..9 of the first line are the header (ID + options), the x/y pairs
    start in the first field of the next line and end with ENDT."""
    out = {}
    for nm, vals, raw in cards(text, name):
        tid = vals[0]
        body, braw = vals[8:], raw[8:]
        if not body or not (isinstance(body[-1], str) and body[-1].upper() == "ENDT"):
            raise ValueError("table does not end with ENDT")
        body, braw = body[:-1], braw[:-1]
        if len(body) % 2:
            raise ValueError("odd number of table values")
        if not all(isinstance(v, float) for v in body):
            raise ValueError("non-real table value")
        out[tid] = (body[0::2], body[1::2], braw[0::2], braw[1::2])
    return out


# ---------------------------------------------------------------------------------
# DMIG

def dmig(text):
    """{NAME: dict(form, tin, ncol, entries={((gj,cj),(gi,ci)): value}, cols=[...])}.

    Header: DMIG NAME 0 IFO TIN TOUT POLAR blank NCOL.  Column entry: DMIG NAME GJ CJ
    blank then (G, C, A [, B]) groups of four fields."""
    out = {}
    for nm, vals, raw in cards(text, "DMIG"):
        name = vals[0]
        if len(vals) > 1 and vals[1] == 0 and name not in out:
            ifo, tin = vals[2], vals[3]
            ncol = vals[7] if len(vals) > 7 and vals[7] != "" else None
            out[name] = {"form": ifo, "tin": tin, "ncol": ncol, "entries": {},
                         "cols": []}
            continue
        d = out[name]
        gj, cj = vals[1], vals[2]
        d["cols"].append((gj, cj))
        body = vals[4:]
        body += [""] * (-len(body) % 4)
        for k in range(0, len(body), 4):
            gi, ci, a, b = body[k:k + 4]
            if gi == "" and ci == "" and a == "" and b == "":
                continue
            if not (isinstance(gi, int) and isinstance(ci, int)
                    and isinstance(a, float)):
                raise ValueError(f"bad DMIG row group {body[k:k + 4]!r}")
            if d["tin"] in (3, 4):
                if not isinstance(b, float):
                    raise ValueError("complex DMIG without imaginary part")
                v = complex(a, b)
            else:
                if b != "":
                    raise ValueError("real DMIG with a 4th field")
                v = a
            key = ((gj, cj), (gi, ci))
            if key in d["entries"]:
                raise ValueError(f"duplicate DMIG term {key}")
            d["entries"][key] = v
    return out


# ---------------------------------------------------------------------------------
# GRID / CORD2x

def grids(text):
    """rows [id, cp, x1, x2, x3, cd, ps, seid] (blank -> 0)."""
    out = []
    for nm, vals, _ in cards(text, "GRID"):
        v = [0 if x == "" else x for x in vals] + [0] * 8
        out.append(v[:8])
    return out


def cord2(text):
    """{cid: (type 1|2|3, rid, A, B, C)} as written."""
    out = {}
    for c in nf.split_fixed(text):
        nm = c["name"].rstrip("*").strip().upper()
        if nm not in ("CORD2R", "CORD2C", "CORD2S"):
            continue
        vals = [nf.classify(f)[1] for f in c["fields"]]
        vals = [0 if x == "" else x for x in vals][:11]
        if len(vals) < 11:
            raise ValueError("short CORD2 entry")
        cid, rid = vals[0], vals[1]
        p = [float(x) for x in vals[2:11]]
        out[cid] = ({"R": 1, "C": 2, "S": 3}[nm[-1]], rid, np.array(p[0:3]),
                    np.array(p[3:6]), np.array(p[6:9]))
    return out


def to_rect(ctype, p):
    """Point given in the natural coordinates of a system of type ctype -> rectangular
    components in that same system.  C: (R, theta deg, Z); S: (R, theta deg from +z,
    phi deg azimuth)."""
    p = np.asarray(p, float)
    if ctype == 1:
        return p.copy()
    if ctype == 2:
        th = math.radians(p[1])
        return np.array([p[0] * math.cos(th), p[0] * math.sin(th), p[2]])
    th, ph = math.radians(p[1]), math.radians(p[2])
    return np.array([p[0] * math.sin(th) * math.cos(ph),
                     p[0] * math.sin(th) * math.sin(ph), p[0] * math.cos(th)])


def resolve(cs):
    """{cid: (type, origin in basic, E)} with the columns of E the x, y, z unit vectors
    of the system in basic.  cs = {cid: (type, rid, A, B, C)}; A = origin, B on +z,
    C in the x-z plane (+x side); A, B, C are in the natural coordinates of rid."""
    done = {0: (1, np.zeros(3), np.eye(3))}
    todo = dict(cs)
    while todo:
        progress = False
        for cid in list(todo):
            typ, rid, A, B, C = todo[cid]
            if rid not in done:
                continue
            rt, ro, rE = done[rid]
            a, b, c = (ro + rE @ to_rect(rt, P) for P in (A, B, C))
            z = (b - a) / np.linalg.norm(b - a)
            xz = c - a
            y = np.cross(z, xz)
            y /= np.linalg.norm(y)
            x = np.cross(y, z)
            done[cid] = (typ, a, np.column_stack([x, y, z]))
            del todo[cid]
            progress = True
        if not progress:
            raise ValueError(f"unresolvable reference systems: {sorted(todo)}")
    return done


def conditioning(cs):
    """{cid: kappa}: first-order amplification of relative input round-off into the
    unit vectors of system cid (0 -> 1).  For one system the direction of z = AB/|AB|
    carries eps*(|a|+|b|)/|AB| and y = z x AC carries that plus eps*(|a|+|c|)/|AC|, both
    divided by the sine of the angle between AB and AC; the error of the reference
    triad enters the same way.  Used to scale tolerances (DESIGN 4.2: conditioning is
    measured on the oracle)."""
    res = resolve(cs)
    kap = {0: 1.0}
    todo = dict(cs)
    while todo:
        for cid in list(todo):
            typ, rid, A, B, C = todo[cid]
            if rid not in kap:
                continue
            rt, ro, rE = res[rid]
            a, b, c = (ro + rE @ to_rect(rt, P) for P in (A, B, C))
            ab, ac = b - a, c - a
            la, lc = np.linalg.norm(ab), np.linalg.norm(ac)
            sin = np.linalg.norm(np.cross(ab, ac)) / (la * lc)
            na, nb_, nc = (np.linalg.norm(v) for v in (a, b, c))
            own = (na + nb_) / la + (na + nc) / lc
            kap[cid] = (own + 2.0 * kap[rid] * (1 + (na + nb_ + nc) / min(la, lc))) / sin
            del todo[cid]
    return kap


def location_basic(res, cp, p):
    typ, o, E = res[cp]
    return o + E @ to_rect(typ, p)


def selfcheck():
    ok = True
    ok &= expand_thru([1, 5, "THRU", 8, 20]) == [1, 5, 6, 7, 8, 20]
    ok &= case_control_sets("SET 101 = 11, 21 THRU 23,\n 40\nSET 5=1") == \
        {101: [11, 21, 22, 23, 40], 5: [1]}
    ok &= expand_components([(3, 123), (9, 0)]) == [(3, 1), (3, 2), (3, 3), (9, 0)]
    # cylindrical system at (1,0,0) with z along basic x, x along basic y
    cs = {5: (2, 0, np.array([1., 0, 0]), np.array([2., 0, 0]), np.array([1., 1, 0])),
          7: (1, 5, np.array([2., 90, 3]), np.array([2., 90, 4]),
              np.array([3., 90, 3]))}
    r = resolve(cs)
    ok &= np.allclose(r[5][2], [[0, 0, 1], [1, 0, 0], [0, 1, 0]])
    # point (R=2, th=90, Z=3) of system 5: rect (0,2,3) -> basic (1,0,0)+0*x+2*y+3*z
    ok &= np.allclose(r[7][1], [1 + 3, 0, 2])
    ok &= np.allclose(location_basic(r, 5, [2, 90, 3]), [4, 0, 2])
    # system 7: z = +Z of 5 = basic x ; x = radial at th=90 = y5 = basic z
    ok &= np.allclose(r[7][2][:, 2], [1, 0, 0]) and np.allclose(r[7][2][:, 0], [0, 0, 1])
    sph = {9: (3, 0, np.zeros(3), np.array([0, 0, 1.]), np.array([1., 0, 0]))}
    ok &= np.allclose(location_basic(resolve(sph), 9, [2, 90, 90]), [0, 2, 0])
    d = dmig("DMIG    K              0       6       2       0       0"
             "               3\n"
             "DMIG*   K                            100               1\n"
             "*                    100               1 3.500000000D+00\n"
             "*                    100               2-1.200000000D+00\n")
    ok &= d["K"]["form"] == 6 and d["K"]["ncol"] == 3 and \
        d["K"]["entries"] == {((100, 1), (100, 1)): 3.5, ((100, 1), (100, 2)): -1.2}
    return bool(ok)
