"""cb_model -- random free 3-D structure, its Craig-Bampton reduction and its physical
truth (mass, cg, inertia, rigid-body motion).  DESIGN section 3 / C06.

Nothing here imports pyyeti.  Everything is dense NumPy + ``scipy.linalg`` written from
the defining mechanics:

* nodes ``x_i`` with 6 DOF (3 translations, 3 small rotations) expressed in the *basic*
  system; a joint between nodes a and b is a symmetric positive-definite 6x6 spring
  acting on the relative motion of the two nodes carried rigidly to a common point p:
  ``delta = G(p-x_b) u_b - G(p-x_a) u_a`` with ``G(d) = [[I, -[d]x], [0, I]]``.  A rigid
  motion of the whole structure gives ``delta = 0`` for every joint, and because every
  joint spring is definite and the joint graph is connected the null space of K is
  *exactly* the 6 rigid-body modes.
* lumped masses: mass ``m_i``, cg offset ``d_i`` from the node, inertia ``J_i`` about that
  cg (built from a point cloud, hence physically admissible):
  ``M_i = G(d_i)^T diag(m_i I, J_i) G(d_i)``.
* boundary grids may be expressed in a local rectangular / cylindrical / spherical output
  system (CORD2x: origin A, point B on the z axis, point C in the x-z plane); the local
  triad at the grid is computed here from the geometry.
* Craig-Bampton: constraint modes ``Psi = -Kii^-1 Kib`` + the first ``nq`` fixed-interface
  modes of ``eigh(Kii, Mii)`` (mass normalised), ``T = [[I, 0], [Psi, Phi]]``.

Physical truth is computed twice, by two different routes, and compared in
:func:`selfcheck_model`: (1) ``RB^T M RB`` with the geometric rigid-body matrix and
(2) sum of point masses + parallel-axis theorem.
"""
import numpy as np
import scipy.linalg as sla


# ----------------------------------------------------------------------------- geometry

def skew(v):
    return np.array([[0.0, -v[2], v[1]], [v[2], 0.0, -v[0]], [-v[1], v[0], 0.0]])


def rigid_map(d):
    """6x6 G: motion (v, w) of a body point  ->  motion at that point + d."""
    G = np.eye(6)
    G[:3, 3:] = -skew(d)
    return G


def rb_basic(xyz, ref):
    """(6n x 6) rigid-body displacement matrix, basic axes, unit motions of `ref`."""
    xyz = np.atleast_2d(xyz)
    return np.vstack([rigid_map(x - ref) for x in xyz])


def cord2_axes(A, B, C):
    """Rows = unit x, y, z axes of a CORD2x system in basic."""
    A, B, C = (np.asarray(v, float) for v in (A, B, C))
    z = B - A
    z = z / np.linalg.norm(z)
    x = (C - A) - ((C - A) @ z) * z
    x = x / np.linalg.norm(x)
    y = np.cross(z, x)
    return np.vstack([x, y, z])


def local_triad(ctype, A, axes, x):
    """3x3 T with u_local = T u_basic for a grid at basic location x whose output
    system is (type 1/2/3, origin A, rows of `axes` = system axes in basic)."""
    if ctype == 1:
        return axes.copy()
    p = axes @ (np.asarray(x, float) - A)        # location in the system's rectangular
    if ctype == 2:
        th = np.arctan2(p[1], p[0])
        c, s = np.cos(th), np.sin(th)
        R = np.array([[c, s, 0.0], [-s, c, 0.0], [0.0, 0.0, 1.0]])
        return R @ axes
    if ctype == 3:
        r = np.linalg.norm(p)
        er = p / r
        ph = np.arctan2(p[1], p[0])
        eph = np.array([-np.sin(ph), np.cos(ph), 0.0])
        eth = np.cross(eph, er)
        return np.vstack([er, eth, eph]) @ axes
    raise ValueError(ctype)


def coords_in_system(ctype, A, axes, x):
    """Coordinates of basic point x as they would be written on a GRID card in the
    system: (x,y,z) | (r, theta deg, z) | (r, theta deg, phi deg)."""
    p = axes @ (np.asarray(x, float) - A)
    if ctype == 1:
        return p
    if ctype == 2:
        return np.array([np.hypot(p[0], p[1]), np.degrees(np.arctan2(p[1], p[0])), p[2]])
    r = np.linalg.norm(p)
    return np.array([r, np.degrees(np.arccos(p[2] / r)),
                     np.degrees(np.arctan2(p[1], p[0]))])


# ------------------------------------------------------------------------------ the model

class Model:
    """Physical model in basic coordinates (DOF order: node0 x,y,z,rx,ry,rz, node1 ...)."""

    def __init__(self, xyz, M, K, mass, cgoff, Jcg, edges):
        self.xyz, self.M, self.K = xyz, M, K
        self.mass, self.cgoff, self.Jcg, self.edges = mass, cgoff, Jcg, edges
        self.n = xyz.shape[0]

    # -- truth by the point-mass / parallel-axis route (no M, no RB) -----------------
    def total_mass(self):
        return float(self.mass.sum())

    def cg(self):
        c = self.xyz + self.cgoff
        return (self.mass[:, None] * c).sum(axis=0) / self.mass.sum()

    def inertia_about(self, p):
        """Inertia tensor (standard form, negative products off-diagonal) about basic
        point p, basic axes."""
        J = np.zeros((3, 3))
        for m, x, d, Ji in zip(self.mass, self.xyz, self.cgoff, self.Jcg):
            r = x + d - p
            J += Ji + m * ((r @ r) * np.eye(3) - np.outer(r, r))
        return J

    def mass6_about(self, p, T=None):
        """6x6 rigid mass about point p from the parallel-axis route; axes rotated by
        T (rows = new axes in basic) if given."""
        m = self.total_mass()
        d = self.cg() - p
        M6 = np.zeros((6, 6))
        M6[:3, :3] = m * np.eye(3)
        M6[:3, 3:] = -m * skew(d)
        M6[3:, :3] = M6[:3, 3:].T
        M6[3:, 3:] = self.inertia_about(p)
        if T is not None:
            R = sla.block_diag(T, T)
            M6 = R @ M6 @ R.T
        return M6

    # -- truth by the matrix route ----------------------------------------------------
    def rb(self, ref):
        return rb_basic(self.xyz, np.asarray(ref, float))

    def mass6_rb(self, ref):
        rb = self.rb(ref)
        return rb.T @ self.M @ rb


def _inertia_cloud(r, m, size):
    """Admissible inertia tensor about the cg of a small random point cloud of total
    mass m and extent `size`."""
    npts = 5
    pts = r.standard_normal((npts, 3)) * size * r.uniform(0.3, 1.0, 3)
    w = r.uniform(0.2, 1.0, npts)
    w *= m / w.sum()
    pts = pts - (w[:, None] * pts).sum(axis=0) / m
    J = np.zeros((3, 3))
    for wi, p in zip(w, pts):
        J += wi * ((p @ p) * np.eye(3) - np.outer(p, p))
    return J


def _spd6(r, kscale, ell):
    Q, _ = np.linalg.qr(r.standard_normal((6, 6)))
    lam = np.exp(r.uniform(np.log(0.3), np.log(3.0), 6))
    S = np.diag([1.0, 1.0, 1.0, ell, ell, ell])
    K = kscale * (S @ (Q * lam) @ Q.T @ S)
    return 0.5 * (K + K.T)


def joint_element(xa, xb, p, Kj):
    """12x12 element stiffness of a joint spring Kj at point p between nodes at xa, xb."""
    B = np.hstack([-rigid_map(p - xa), rigid_map(p - xb)])
    return B.T @ Kj @ B


def random_model(r, nn=None, size=None, massless=()):
    """Random free structure.  `massless` = node indices given zero mass (used by the
    degenerate variants)."""
    nn = int(r.integers(6, 26)) if nn is None else nn
    size = float(np.exp(r.uniform(np.log(0.5), np.log(20.0)))) if size is None else size
    origin = r.uniform(-2.0, 2.0, 3) * size
    xyz = origin + r.uniform(-0.5, 0.5, (nn, 3)) * size
    ell = 0.3 * size
    mass = np.exp(r.uniform(np.log(0.5), np.log(20.0), nn))
    cgoff = r.uniform(-0.08, 0.08, (nn, 3)) * size
    Jcg = np.array([_inertia_cloud(r, m, 0.12 * size) for m in mass])
    for i in massless:
        mass[i] = 0.0
        cgoff[i] = 0.0
        Jcg[i] = 0.0
    nd = 6 * nn
    M = np.zeros((nd, nd))
    for i in range(nn):
        G = rigid_map(cgoff[i])
        M[6 * i:6 * i + 6, 6 * i:6 * i + 6] = G.T @ sla.block_diag(
            mass[i] * np.eye(3), Jcg[i]) @ G
    K = np.zeros((nd, nd))
    edges = []
    kbase = float(np.exp(r.uniform(np.log(1e4), np.log(1e7))))
    for b in range(1, nn):
        edges.append((int(r.integers(0, b)), b))
    nextra = int(r.integers(nn // 3, nn + 1))
    for _ in range(nextra):
        a, b = r.choice(nn, 2, replace=False)
        edges.append((int(min(a, b)), int(max(a, b))))
    for a, b in edges:
        p = 0.5 * (xyz[a] + xyz[b]) + r.uniform(-0.1, 0.1, 3) * size
        Kj = _spd6(r, kbase * float(np.exp(r.uniform(np.log(0.3), np.log(3.0)))), ell)
        Ke = joint_element(xyz[a], xyz[b], p, Kj)
        ia = np.r_[6 * a:6 * a + 6, 6 * b:6 * b + 6]
        K[np.ix_(ia, ia)] += Ke
    M = 0.5 * (M + M.T)
    K = 0.5 * (K + K.T)
    mdl = Model(xyz, M, K, mass, cgoff, Jcg, edges)
    mdl.size, mdl.ell, mdl.kbase = size, ell, kbase
    return mdl


def ground(mdl, node, dof, kg):
    """Copy of the model with a scalar spring to ground on one physical DOF."""
    K = mdl.K.copy()
    K[6 * node + dof, 6 * node + dof] += kg
    g = Model(mdl.xyz, mdl.M, K, mdl.mass, mdl.cgoff, mdl.Jcg, mdl.edges)
    g.size, g.ell, g.kbase = mdl.size, mdl.ell, mdl.kbase
    return g


def _clone(mdl, **kw):
    g = Model(kw.get("xyz", mdl.xyz), kw.get("M", mdl.M), kw.get("K", mdl.K),
              kw.get("mass", mdl.mass), kw.get("cgoff", mdl.cgoff),
              kw.get("Jcg", mdl.Jcg), mdl.edges)
    g.size, g.ell, g.kbase = (kw.get("size", mdl.size), kw.get("ell", mdl.ell),
                              kw.get("kbase", mdl.kbase))
    return g


def scale_stiffness(mdl, f):
    return _clone(mdl, K=mdl.K * f, kbase=mdl.kbase * f)


def add_massless_grid(mdl, r, attach, kind):
    """Append a node without mass, joined to node `attach` only.

    kind = 'massless': full 6x6 joint  -> 6 DOF with stiffness and no mass.
    kind = 'null'    : ball joint (3 translational springs at the new node) -> 3 massless
                       translations with stiffness, 3 rotations with neither mass nor
                       stiffness (null columns)."""
    n = mdl.n
    xnew = mdl.xyz[attach] + r.uniform(-0.3, 0.3, 3) * mdl.size
    xyz = np.vstack([mdl.xyz, xnew])
    nd = 6 * (n + 1)
    M = np.zeros((nd, nd))
    M[:6 * n, :6 * n] = mdl.M
    K = np.zeros((nd, nd))
    K[:6 * n, :6 * n] = mdl.K
    ia = np.r_[6 * attach:6 * attach + 6, 6 * n:6 * n + 6]
    if kind == "massless":
        p = 0.5 * (mdl.xyz[attach] + xnew)
        Ke = joint_element(mdl.xyz[attach], xnew, p, _spd6(r, mdl.kbase, mdl.ell))
    else:
        Q, _ = np.linalg.qr(r.standard_normal((3, 3)))
        k3 = mdl.kbase * (Q * np.exp(r.uniform(np.log(0.3), np.log(3.0), 3))) @ Q.T
        B = np.zeros((3, 12))
        B[:, :6] = -rigid_map(xnew - mdl.xyz[attach])[:3]
        B[:, 6:9] = np.eye(3)
        Ke = B.T @ (0.5 * (k3 + k3.T)) @ B
    K[np.ix_(ia, ia)] += Ke
    K = 0.5 * (K + K.T)
    return _clone(mdl, xyz=xyz, M=M, K=K, mass=np.r_[mdl.mass, 0.0],
                  cgoff=np.vstack([mdl.cgoff, np.zeros(3)]),
                  Jcg=np.concatenate([mdl.Jcg, np.zeros((1, 3, 3))]))


def convert_model(mdl, L, Mc):
    """The same structure expressed in other units: lengths x L, masses x Mc (time
    unchanged): force x Mc L, stiffness F/length x Mc, moment/rad x Mc L^2."""
    nd = 6 * mdl.n
    t = np.zeros(nd, bool)
    t[np.arange(nd) % 6 < 3] = True
    s = np.where(t, 1.0, L)                     # M_new = Mc * s_i s_j * M_old
    M = Mc * mdl.M * np.outer(s, s)
    K = Mc * mdl.K * np.outer(s, s)
    g = Model(mdl.xyz * L, M, K, mdl.mass * Mc, mdl.cgoff * L, mdl.Jcg * (Mc * L * L),
              mdl.edges)
    g.size, g.ell, g.kbase = mdl.size * L, mdl.ell * L, mdl.kbase * Mc
    return g


def cb_unit_factors(nb, nq, L, Mc):
    """(c, d) of a CB model [b (grids: 3 trans, 3 rot), q]: u_old = c*u_new,
    f_new = d*f_old.  Derived from the physical scaling in :func:`convert_model`:
    x_old = x_new/L, rotations unchanged, modal coordinate q_old = q_new/(sqrt(Mc) L)
    because mass-normalised mode shapes scale by 1/(sqrt(Mc) L); forces x Mc L, moments
    x Mc L^2, modal force x sqrt(Mc) L."""
    tb = (np.arange(nb) % 6) < 3
    c = np.r_[np.where(tb, 1.0 / L, 1.0), np.full(nq, 1.0 / (np.sqrt(Mc) * L))]
    d = np.r_[np.where(tb, Mc * L, Mc * L * L), np.full(nq, np.sqrt(Mc) * L)]
    return c, d


def selfcheck_model(mdl):
    """max scaled errors of (K RB = 0, RB^T M RB = parallel-axis mass, rank of K)."""
    ref = mdl.xyz.mean(axis=0)
    rb = mdl.rb(ref)
    sc = np.array([1, 1, 1, mdl.size, mdl.size, mdl.size], float)
    f = np.abs(mdl.K @ rb) / (np.abs(mdl.K) @ np.abs(rb) + 1e-300)
    e_k = float(f.max())
    m1 = mdl.mass6_rb(ref)
    m2 = mdl.mass6_about(ref)
    scale = mdl.total_mass() * np.outer(sc, sc)
    e_m = float((np.abs(m1 - m2) / scale).max())
    w = sla.eigvalsh(mdl.K)
    nnull = int((np.abs(w) < 1e-9 * np.abs(w).max()).sum())
    return e_k, e_m, nnull


# ------------------------------------------------------------------- boundary + reduction

def random_cord(r, ctype, cid, size, origin):
    A = origin + r.uniform(-1.0, 1.0, 3) * size
    while True:
        B = A + r.standard_normal(3)
        C = A + r.standard_normal(3)
        zb = (B - A) / np.linalg.norm(B - A)
        xc = (C - A) - ((C - A) @ zb) * zb
        if np.linalg.norm(B - A) > 0.3 and np.linalg.norm(xc) > 0.3:
            break
    return {"cid": int(cid), "type": int(ctype), "A": A, "B": B, "C": C,
            "axes": cord2_axes(A, B, C)}


def aligned_cord(r, ctype, cid, size, x, angle):
    """Curvilinear system in which the point x sits at azimuth `angle` (0, 90, 180, 270
    degrees) to round-off: quadrant boundaries are where branch tests on the local x, y
    change sides; they are ordinary, non-singular locations."""
    while True:
        A = x + r.uniform(-1.0, 1.0, 3) * size
        zb = r.standard_normal(3)
        zb /= np.linalg.norm(zb)
        rho = (x - A) - ((x - A) @ zb) * zb
        if np.linalg.norm(rho) > 0.2 * size:
            break
    e1 = rho / np.linalg.norm(rho)
    e2 = np.cross(zb, e1)
    ang = np.deg2rad(angle)
    # local x axis such that the point is at azimuth `angle`: x_axis = R(-angle) e1
    xax = np.cos(ang) * e1 - np.sin(ang) * e2
    B = A + zb * float(r.uniform(0.5, 2.0))
    C = A + xax * float(r.uniform(0.5, 2.0)) + zb * float(r.uniform(-0.5, 0.5))
    return {"cid": int(cid), "type": int(ctype), "A": A, "B": B, "C": C,
            "axes": cord2_axes(A, B, C)}


def well_placed(cord, x, size):
    """Grid not (nearly) on the polar axis / origin of a curvilinear system."""
    if cord is None or cord["type"] == 1:
        return True
    p = cord["axes"] @ (x - cord["A"])
    return np.hypot(p[0], p[1]) > 0.05 * size


def to_local(mdl, bnodes, triads):
    """Physical matrices with the boundary grids' DOF expressed in their local triads.
    Returns (M, K, Q) with u_local = Q u_basic."""
    nd = 6 * mdl.n
    Q = np.eye(nd)
    for g, T in zip(bnodes, triads):
        Q[6 * g:6 * g + 3, 6 * g:6 * g + 3] = T
        Q[6 * g + 3:6 * g + 6, 6 * g + 3:6 * g + 6] = T
    return Q @ mdl.M @ Q.T, Q @ mdl.K @ Q.T, Q


def craig_bampton(M, K, bdof, nq=None):
    """CB reduction, boundary DOF `bdof` (in that order) first, then nq modal DOF.

    Returns dict(m, k, T, idof, w2, phi, psi)."""
    nd = M.shape[0]
    bdof = np.asarray(bdof, int)
    mask = np.ones(nd, bool)
    mask[bdof] = False
    idof = np.nonzero(mask)[0]
    nb = bdof.size
    if idof.size:
        Kii = K[np.ix_(idof, idof)]
        Kib = K[np.ix_(idof, bdof)]
        Mii = M[np.ix_(idof, idof)]
        cho = sla.cho_factor(Kii)
        psi = -sla.cho_solve(cho, Kib)
        w2, phi = sla.eigh(Kii, Mii)
        if nq is None:
            nq = idof.size
        nq = min(int(nq), idof.size)
        w2, phi = w2[:nq], phi[:, :nq]
    else:
        psi = np.zeros((0, nb))
        w2, phi, nq = np.zeros(0), np.zeros((0, 0)), 0
    T = np.zeros((nd, nb + nq))
    T[bdof, np.arange(nb)] = 1.0
    T[np.ix_(idof, np.arange(nb))] = psi
    T[np.ix_(idof, nb + np.arange(nq))] = phi
    m = T.T @ M @ T
    k = T.T @ K @ T
    # the exact structure of a CB pair: kbq = 0, kqq = diag(w2), mqq = I
    k[:nb, nb:] = 0.0
    k[nb:, :nb] = 0.0
    k[nb:, nb:] = np.diag(w2)
    m[nb:, nb:] = np.eye(nq)
    m = 0.5 * (m + m.T)
    k = 0.5 * (k + k.T)
    return {"m": m, "k": k, "T": T, "idof": idof, "w2": w2, "phi": phi, "psi": psi,
            "nb": nb, "nq": nq}


def effmass_truth(M, rb, idof, phi):
    """Modal effective mass from physical quantities only: (phi_k^T [M RB]_i)^2."""
    if phi.shape[1] == 0:
        return np.zeros((0, 6))
    return (phi.T @ (M @ rb)[idof]) ** 2


# -------------------------------------------------------------------- rigid 6x6 masses

def random_rigid_mass(r, scale=1.0):
    """Random rigid body: returns (6x6 mass about a reference point, mass, d = cg -
    ref, Jcg standard inertia tensor about the cg)."""
    npts = int(r.integers(3, 9))
    pts = r.standard_normal((npts, 3)) * scale * r.uniform(0.1, 2.0, 3)
    w = np.exp(r.uniform(-2, 2, npts))
    m = w.sum()
    cg = (w[:, None] * pts).sum(axis=0) / m
    J = np.zeros((3, 3))
    for wi, p in zip(w, pts - cg):
        J += wi * ((p @ p) * np.eye(3) - np.outer(p, p))
    ref = cg + r.standard_normal(3) * scale * float(np.exp(r.uniform(-3, 2)))
    d = cg - ref
    M6 = np.zeros((6, 6))
    M6[:3, :3] = m * np.eye(3)
    M6[:3, 3:] = -m * skew(d)
    M6[3:, :3] = M6[:3, 3:].T
    M6[3:, 3:] = J + m * ((d @ d) * np.eye(3) - np.outer(d, d))
    return 0.5 * (M6 + M6.T), float(m), d, J


def selfcheck():
    """Run once per shard: the generator itself satisfies its construction claims."""
    r = np.random.default_rng(12345)
    worst = 0.0
    for i in range(3):
        mdl = random_model(r, nn=6 + 4 * i)
        e_k, e_m, nnull = selfcheck_model(mdl)
        if nnull != 6:
            return False, f"K has {nnull} zero eigenvalues (want 6)"
        worst = max(worst, e_k, e_m)
        # CB with all modes reproduces the physical spectrum
        bd = np.arange(6)
        cbm = craig_bampton(mdl.M, mdl.K, bd)
        w_cb = sla.eigvalsh(cbm["k"], cbm["m"])
        w_ph = sla.eigvalsh(mdl.K, mdl.M)
        err = np.abs(w_cb[6:] - w_ph[6:]).max() / w_ph.max()
        worst = max(worst, err)
        # unit factors (c, d) agree with reducing the model re-expressed in new units
        L, Mc = 39.37007874015748, 0.005710147154735817
        cb2 = craig_bampton(*(lambda g: (g.M, g.K))(convert_model(mdl, L, Mc)), bd)
        c, d = cb_unit_factors(6, cbm["nq"], L, Mc)
        for key in ("m", "k"):
            want = cbm[key] * np.outer(d, c)
            got = cb2[key]
            sc = np.sqrt(np.outer(np.abs(np.diag(want)), np.abs(np.diag(want)))) + 1e-7 * np.abs(want).max()
            e1 = (np.abs(got[:6, :6] - want[:6, :6]) / sc[:6, :6]).max()
            e2 = (np.abs(np.abs(got) - np.abs(want)) / sc).max()
            if max(e1, e2) > 1e-8:
                return False, f"unit factors disagree with physical route ({key})"
        # curvilinear triads are orthonormal and radial axis points away from the origin
        for ct in (1, 2, 3):
            c = random_cord(r, ct, 7, mdl.size, mdl.xyz[0])
            T = local_triad(ct, c["A"], c["axes"], mdl.xyz[1])
            worst = max(worst, np.abs(T @ T.T - np.eye(3)).max())
            if abs(np.linalg.det(T) - 1) > 1e-12:
                return False, "triad not right-handed"
    M6, m, d, J = random_rigid_mass(r)
    if abs(M6[1, 5] / M6[1, 1] - d[0]) > 1e-12 * (1 + abs(d[0])):
        return False, "rigid mass sign convention"
    return worst < 1e-9, f"worst scaled error {worst:.2e}"
