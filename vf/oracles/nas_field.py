"""Nastran bulk-data fields: grammar, fixed-field card splitter and the precision a
field of a given width can carry (DESIGN 3 / 5-C12).  Written from the Quick Reference
Guide's description of the bulk-data format ("Bulk Data Entries: format of bulk data
entries", real numbers such as ``7.0  .7  0.7  7.E1  7.0+1  .70+1  7.D1  70.-1``).

No pyyeti import, no shared code with it.  Numbers are evaluated in exact integer /
rational arithmetic and converted to the nearest double by integer true division
(correctly rounded in CPython), never by ``float(str)``.

Contents
--------
parse_int / parse_real / classify   the grammar (own parser)
finest_unit / bound                 precision bound of DESIGN 5-C12
split_fixed / read_fixed            fixed-field card reader (8- and 16-wide, per line)
selfcheck                           hand cases
"""
import math
import re
from decimal import Decimal

_INT = re.compile(r"^[+-]?[0-9]+$")
# mantissa with a decimal point; exponent either  E|D [sign] digits  or  sign digits
_REAL_PT = re.compile(
    r"^([+-]?)([0-9]*)\.([0-9]*)(?:[EeDd]([+-]?[0-9]+)|([+-][0-9]+))?$")
# mantissa without a point is a real only when an exponent letter follows
_REAL_NOPT = re.compile(r"^([+-]?)([0-9]+)[EeDd]([+-]?[0-9]+)$")

INF = float("inf")


def _ratio_to_float(num, den):
    """Nearest double to num/den (both ints, den > 0); +-inf on overflow."""
    try:
        return num / den
    except OverflowError:
        return INF if num > 0 else -INF


def parse_int(text):
    """Integer value of a field, or None when the field is not an integer."""
    t = text.strip()
    if _INT.match(t):
        return int(t)
    return None


def parse_real(text):
    """(sign, num, den, value) of a Nastran real, or None.

    The exact value is sign*num/den with den a power of ten; ``value`` is the nearest
    double (keeps the sign of a negative zero).
    """
    t = text.strip()
    m = _REAL_PT.match(t)
    if m:
        sg, ip, fp, e1, e2 = m.groups()
        if not ip and not fp:
            return None
        ex = int(e1 if e1 is not None else (e2 if e2 is not None else 0))
    else:
        m = _REAL_NOPT.match(t)
        if not m:
            return None
        sg, ip, e1 = m.groups()
        fp = ""
        ex = int(e1)
    mant = int((ip + fp) or "0")
    ex -= len(fp)
    if ex >= 0:
        num, den = mant * 10 ** ex, 1
    else:
        num, den = mant, 10 ** (-ex)
    v = _ratio_to_float(num, den)
    s = -1 if sg == "-" else 1
    if s < 0:
        v = -v
    return s, num, den, v


def classify(text):
    """('blank', '') | ('int', n) | ('real', x) | ('str', stripped text)."""
    t = text.strip()
    if not t:
        return "blank", ""
    n = parse_int(t)
    if n is not None:
        return "int", n
    r = parse_real(t)
    if r is not None:
        return "real", r[3]
    return "str", t


# ---------------------------------------------------------------------------------
# precision bound

def exponent10(x):
    """floor(log10|x|) computed exactly (x finite, non-zero)."""
    return Decimal(abs(float(x))).adjusted()


def finest_unit(x, width, style):
    """Power-of-ten exponent p of the weight u = 10**p of the last digit of the finest
    *normalised* representation of a number with the sign and decade of ``x`` that fits
    a field of ``width`` characters.

    style 'E' : fixed notation ``[-]ddd.ddd`` with k decimals (a zero integer part is
                dropped: ``.ddd``) or scientific ``[-]d.ddd(+|-)ee`` with one non-zero
                leading digit and no exponent letter (what format_float8/16 produce);
    style 'D' : only ``[-]d.dddD(+|-)ee`` (format_double16).

    Found by enumeration over the number of decimals; returns (p, form).
    """
    neg = 1 if math.copysign(1.0, x) < 0 else 0
    e = exponent10(x)
    best = None
    if style == "E":
        intdigits = e + 1 if e >= 0 else 0
        for k in range(0, width + 1):
            if neg + intdigits + 1 + k <= width:
                if best is None or -k < best[0]:
                    best = (-k, "fixed")
    nexp = len(str(abs(e)))
    letter = 1 if style == "D" else 0
    for m in range(0, width + 1):
        if neg + 1 + 1 + m + letter + 1 + nexp <= width:
            if best is None or e - m < best[0]:
                best = (e - m, "sci")
    if best is None:
        raise ValueError(f"no representation of {x!r} fits {width} characters")
    return best


def pow10(p):
    if p >= 0:
        return _ratio_to_float(10 ** p, 1)
    return _ratio_to_float(1, 10 ** (-p))


def bound(x, width, style):
    """Largest admissible |x - parsed| : 0.51*u + ulp(x)  (DESIGN 5-C12)."""
    p, _ = finest_unit(x, width, style)
    return 0.51 * pow10(p) + math.ulp(x)


def half_unit_of_text(text):
    """Half a unit of the last written digit of a real field (for readers' checks)."""
    t = text.strip()
    m = _REAL_PT.match(t)
    if not m:
        return None
    sg, ip, fp, e1, e2 = m.groups()
    ex = int(e1 if e1 is not None else (e2 if e2 is not None else 0))
    return 0.5 * pow10(ex - len(fp))


# ---------------------------------------------------------------------------------
# fixed-field reader (cross-reader for the writers)

def _clean(line):
    line = line.rstrip("\r\n").expandtabs()
    p = line.find("$")
    if p >= 0:
        line = line[:p]
    return line


def split_fixed(text):
    """Split bulk-data text into cards of raw fixed-width fields.

    Returns a list of dicts {name, width, fields, lines, cont}: ``fields`` are the raw
    data-field strings (each physical line padded to its 8 small or 4 large fields),
    ``cont`` the raw continuation fields (columns 73-80) and leading fields of the
    continuation lines.  The width is decided line by line from a '*' in field 1.  A
    line whose first column is '+', '*' or blank continues the current card.  Comment
    and blank lines end a card.
    """
    cards = []
    cur = None
    for raw in text.splitlines():
        if raw.startswith("$"):
            cur = None
            continue
        line = _clean(raw)
        if not line.strip():
            cur = None
            continue
        if "," in line:
            raise ValueError("free-field line given to the fixed-field splitter")
        first = line[:8]
        wide = "*" in first
        is_cont = line[0] in "+* "
        if is_cont and cur is None:
            raise ValueError("continuation line without a parent: " + raw)
        if not is_cont:
            cur = {"name": first.strip(), "width": 16 if wide else 8, "fields": [],
                   "lines": [], "cont": []}
            cards.append(cur)
        else:
            cur["cont"].append(first)
        w = 16 if wide else 8
        body = line[8:72].ljust(64)
        cur["fields"].extend(body[i:i + w] for i in range(0, 64, w))
        cur["cont"].append(line[72:80])
        cur["lines"].append(raw)
    return cards


def strip_trailing_blanks(vals):
    vals = list(vals)
    while vals and isinstance(vals[-1], str) and vals[-1] == "":
        vals.pop()
    return vals


def read_fixed(text):
    """[(name, [values...])]: values classified by the grammar, trailing blanks dropped."""
    out = []
    for c in split_fixed(text):
        vals = [classify(f)[1] for f in c["fields"]]
        out.append((c["name"], strip_trailing_blanks(vals)))
    return out


# ---------------------------------------------------------------------------------

def selfcheck():
    """Hand cases (QRG examples and field arithmetic)."""
    ok = True
    for t, want in (("7.0", 7.0), (".7", 0.7), ("0.7", 0.7), ("7.E1", 70.0),
                    ("7.0+1", 70.0), (".70+1", 7.0), ("7.D1", 70.0), ("70.-1", 7.0),
                    ("  -1.5-3 ", -0.0015), ("1.5d+3", 1500.0), ("7E1", 70.0),
                    ("1.234567+10", 1.234567e10), ("4.94-324", 5e-324),
                    ("-1.D-300", -1e-300), ("10.-100", 1e-99), ("0.", 0.0)):
        r = parse_real(t)
        ok &= r is not None and r[3] == want
    for t in ("E5", "D1", "THRU", "NAN", "INF", "1+5", ".", "+", "1.5E", "1.5+",
              "1.5+-3", "1_0", "1.5E+3.0", "- 1.5"):
        ok &= parse_real(t) is None
    ok &= classify("     123") == ("int", 123) and classify("-5") == ("int", -5)
    ok &= classify("  ") == ("blank", "") and classify("E5 ") == ("str", "E5")
    # units: '1.234567' (8 wide, +) -> 1e-6 ; '-1.23457' -> 1e-5 ; '1234567.' -> 1
    ok &= finest_unit(1.2345678, 8, "E") == (-6, "fixed")
    ok &= finest_unit(-1.2345678, 8, "E") == (-5, "fixed")
    ok &= finest_unit(1234567.8, 8, "E") == (0, "fixed")
    ok &= finest_unit(12345678.0, 8, "E") == (3, "sci")       # 1.2346+7
    ok &= finest_unit(-12345678.0, 8, "E") == (4, "sci")      # -1.235+7
    ok &= finest_unit(1.2345e-4, 8, "E") == (-8, "sci")       # 1.2345-4
    ok &= finest_unit(0.0012345, 8, "E")[0] == -7             # .0012345 or 1.2345-3
    ok &= finest_unit(1.5e-100, 8, "E") == (-102, "sci")      # 1.50-100
    ok &= finest_unit(1.0, 16, "D") == (-11, "sci")           # 1.00000000000D+0
    ok &= finest_unit(-1.0e-100, 16, "D") == (-108, "sci")    # -1.00000000D-100
    ok &= finest_unit(1.0, 16, "E") == (-14, "fixed")         # 1.00000000000000
    f8 = "{:<8s}{:>8s}{:<8s}{:8s}{:>8s}\n{:<8s}{:<8s}\n"
    txt8 = f8.format("ABC", "1", "E5", "", "2.-3", "+", "NAN")
    txt16 = ("{:<8s}{:>16s}{:>16s}{:>16s}\n{:<8s}{:>16s}{:>16s}\n"
             .format("GRID*", "101", "102", "1.", "*", "3.", "103"))
    c = split_fixed(txt16 + "$ comment\n" + txt8)
    ok &= len(c) == 2 and c[0]["width"] == 16 and len(c[0]["fields"]) == 8
    ok &= len(c[1]["fields"]) == 16 and c[1]["name"] == "ABC"
    r = read_fixed(txt16 + txt8)
    ok &= r == [("GRID*", [101, 102, 1.0, "", 3.0, 103]),
                ("ABC", [1, "E5", "", 0.002, "", "", "", "", "NAN"])]
    return bool(ok)
