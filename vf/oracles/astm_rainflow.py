"""ASTM E1049-85 section 5.4.4 rainflow procedure, transcribed from the standard.

Works on a Python list of (offset, value) pairs that shrinks as points are discarded;
shares no data structure or control flow with pyyeti's ``pts``/``j`` stack code.

Returns a list of cycles ``(range/2, mean, count, start_offset, stop_offset)`` in the
order in which the standard's procedure counts them.
"""


def rainflow(seq):
    seq = [float(v) for v in seq]
    if len(seq) < 2:
        raise ValueError("need at least two reversals")
    out = []
    kept = []  # reversals read so far and not discarded; kept[0] is the start S
    for off, val in enumerate(seq):
        kept.append((off, val))                       # step 1: read next reversal
        while len(kept) >= 3:                         # step 2
            (o0, v0), (o1, v1), (_, v2) = kept[-3], kept[-2], kept[-1]
            y = abs(v0 - v1)                          # range Y: older pair
            x = abs(v1 - v2)                          # range X: newer pair
            if x < y:                                 # step 3
                break
            if len(kept) == 3:                        # step 4: Y contains S -> step 5
                out.append((y / 2, (v0 + v1) / 2, 0.5, o0, o1))
                del kept[0]                           # discard first point of Y
            else:                                     # step 4: count Y as one cycle
                out.append((y / 2, (v0 + v1) / 2, 1.0, o0, o1))
                del kept[-3:-1]                       # discard peak and valley of Y
    for (o0, v0), (o1, v1) in zip(kept[:-1], kept[1:]):   # step 6
        out.append((abs(v0 - v1) / 2, (v0 + v1) / 2, 0.5, o0, o1))
    return out


def selfcheck():
    """The standard's worked example (Fig. 6): -2,1,-3,5,-1,3,-4,4,-2."""
    got = rainflow([-2, 1, -3, 5, -1, 3, -4, 4, -2])
    # ranges 3(half) 4(half) 4(full) 8(half) 9(half) 8(half) 6(half)
    want = [(1.5, -0.5, 0.5, 0, 1), (2.0, -1.0, 0.5, 1, 2), (2.0, 1.0, 1.0, 4, 5),
            (4.0, 1.0, 0.5, 2, 3), (4.5, 0.5, 0.5, 3, 6), (4.0, 0.0, 0.5, 6, 7),
            (3.0, 1.0, 0.5, 7, 8)]
    return got == want
