"""The documented Nastran USET set hierarchy as plain Python sets.  No pyyeti imports.

Source: the diagram printed in the docstrings of mkusetmask / mksetpv / addgrid::

     m  -------------------------------------\\
     s  ------------------------------\\       > g --\\
     o  -----------------------\\       > n --/       \\
     q  ----------------\\       > f --/       \\       \\
     r  ---------\\       > a --/       \\       \\       > p
     c  --\\       > t --/       \\       > fe    > ne  /
     b  ---> l --/               > d   /       /     /
     e  ------------------------/-----/-------/-----/

read as "each superset is the disjoint union of the sets whose lines run into it":

    l = c+b   t = l+r   a = t+q   d = a+e   f = a+o   fe = f+e
    n = f+s   ne = n+e  g = n+m   p = g+e

A *table* here is a list of (id, dof, base) triples in table order, ``base`` one of the
eight base letters.  Everything returns plain Python lists/sets of row positions.
"""

BASE = ("m", "s", "o", "q", "r", "c", "b", "e")

# direct members exactly as the diagram draws them (child lines running into '>')
DIRECT = {
    "l": ("c", "b"),
    "t": ("l", "r"),
    "a": ("t", "q"),
    "d": ("a", "e"),
    "f": ("a", "o"),
    "fe": ("f", "e"),
    "n": ("f", "s"),
    "ne": ("n", "e"),
    "g": ("n", "m"),
    "p": ("g", "e"),
}
SUPER = tuple(DIRECT)
NAMES = BASE + SUPER          # the 18 set names

# NDDL bit positions of the USET word (MSC DMAP Programmer's Guide, table USET)
NDDL_BIT = {"m": 0, "s": 1, "o": 2, "r": 3, "g": 4, "n": 5, "f": 6, "a": 7, "l": 8,
            "sg": 9, "sb": 10, "e": 11, "p": 12, "ne": 13, "fe": 14, "d": 15,
            "c": 20, "b": 21, "q": 22, "t": 23}


def members(name):
    """Base letters that make up set `name` (frozenset)."""
    if name in BASE:
        return frozenset((name,))
    out = set()
    for child in DIRECT[name]:
        out |= members(child)
    return frozenset(out)


def expr_members(expr):
    """Base letters of a '+' expression such as 'b+q' or 'l+o'."""
    out = set()
    for part in expr.split("+"):
        out |= members(part)
    return frozenset(out)


def supersets_of(base):
    """Names of all supersets that contain base letter `base`."""
    return tuple(s for s in SUPER if base in members(s))


def is_subset(minor, major):
    return expr_members(minor) <= expr_members(major)


def rows_of(table_bases, expr):
    """Positions (ascending = table order) of the rows whose base set is in `expr`."""
    mem = expr_members(expr)
    return [i for i, b in enumerate(table_bases) if b in mem]


def partition(table_bases, major, minor):
    """What mksetpv must return: ('refuse', None) when some row of the table is in
    `minor` but not in `major`; else ('ok', list of bools over the rows of `major` in
    table order, True where the row is also in `minor`)."""
    maj = expr_members(major)
    mnr = expr_members(minor)
    if any((b in mnr) and (b not in maj) for b in table_bases):
        return "refuse", None
    return "ok", [b in mnr for b in table_bases if b in maj]


def nastran_word(base, rng=None, bstyle=0, sstyle=0):
    """USET word the way Nastran writes it: the base-set bit(s) plus one bit for every
    superset the DOF belongs to.  ``bstyle``: 0 -> bit 21 only, 1 -> bits 1 and 21,
    2 -> bit 1 only (the b/s ambiguity of the 2nd bit documented in mkusetmask; the op2
    reader has already cleared bit 1 on s-set DOF).  ``sstyle``: 0 -> sg, 1 -> sb,
    2 -> both."""
    if base == "b":
        w = {0: 1 << 21, 1: (1 << 21) | 2, 2: 2}[bstyle]
    elif base == "s":
        w = {0: 1 << 9, 1: 1 << 10, 2: (1 << 9) | (1 << 10)}[sstyle]
    else:
        w = 1 << NDDL_BIT[base]
    for s in supersets_of(base):
        w |= 1 << NDDL_BIT[s]
    return w


def selfcheck():
    """The lattice against the diagram, spelled out by hand."""
    want = {
        "l": "cb", "t": "cbr", "a": "cbrq", "d": "cbrqe", "f": "cbrqo",
        "fe": "cbrqoe", "n": "cbrqos", "ne": "cbrqose", "g": "cbrqosm",
        "p": "cbrqosme",
    }
    ok = all(members(k) == frozenset(v) for k, v in want.items())
    ok &= len(NAMES) == 18 and len(set(NAMES)) == 18
    # every superset is the DISJOINT union of its direct members
    for s, kids in DIRECT.items():
        a, b = (members(k) for k in kids)
        ok &= not (a & b) and (a | b) == members(s)
    # chains of the diagram
    ok &= is_subset("l", "t") and is_subset("t", "a") and is_subset("a", "f")
    ok &= is_subset("a", "d") and not is_subset("d", "f") and not is_subset("f", "d")
    ok &= is_subset("f", "n") and is_subset("n", "g") and is_subset("g", "p")
    ok &= is_subset("d", "fe") and is_subset("fe", "ne") and is_subset("ne", "p")
    ok &= not is_subset("ne", "g") and not is_subset("g", "ne")
    ok &= nastran_word("q") == (1 << 22) | (1 << 7) | (1 << 15) | (1 << 6) | \
        (1 << 14) | (1 << 5) | (1 << 13) | (1 << 4) | (1 << 12)
    return bool(ok)
