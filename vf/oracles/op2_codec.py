"""Independent Nastran OUTPUT2 codec: encoder and *strict* decoder (DESIGN 3, C11).

Written from the layout in DESIGN.md section 5/C11 and the Nastran-written sample files;
shares no code with pyYeti and never imports it.

The file is a stream of Fortran records ``[len:int32] payload [len:int32]``.  A *key* is a
record whose payload is one integer (int32, or int64 in a "64-bit" file).

  header (optional)  key 3, rec(date: 3 ints), key 7, rec(7 words of text),
                     key 2, rec(2 words of text), key -1, key 0
  data block         key 2, rec(name, 2 words), key -1, key 7, rec(trailer, 7 ints),
                     key -2, key 1, key 0, key n, rec(header record: n words, starts with
                     the name), key -3, key 1, key rectype (0 table / 1 matrix),
                     body, key 0
  matrix body        per column c = 1..ncol: zero or more strings
                     ``key nw, rec(irow:int, nw data words)`` closed by
                     ``key -(c+3), key 1, key more`` (more = 1, 0 after the last column)
  table body         per logical record r = 1..: one or more pieces ``key nw, rec(nw words)``
                     closed by ``key -(r+3), key 1, key 0``
  end of file        one more key 0

A real is one word, except a double in a 32-bit file (two words).  The decoder checks every
length word and every key against this grammar and returns the logical content plus the
physical layout (string partition of each column, split of each logical record, raw name and
header bytes), so that ``encode(decode(x)) == x`` on the shipped files.
"""
import os
import struct

import numpy as np


class CodecError(Exception):
    pass


class Block:
    """One data block.

    name      stripped name; name_raw = the 2-word name record as stored
    trailer   tuple of 7 ints
    hdr_raw   payload of the header record (name + extra words)
    rectype   0 table, 1 matrix
    matrix:   cols = list over ALL columns (index c-1) of [(irow, reals), ...]
              (trailer[1] = ncol, trailer[2] = nrow, trailer[4] = type 1..4)
    table:    records = list of logical records, each a list of physical pieces (bytes)
    offsets:  start, body_start, stop; rec_stops[i] = offset just after logical record i /
              column i (after its closing key triple); for tables the last entry is
              followed by the terminating key 0
    """

    def __init__(self, name, trailer, rectype, cols=None, records=None, name_raw=None,
                 hdr_raw=None, hdr_extra=None):
        self.name, self.trailer, self.rectype = name, tuple(int(t) for t in trailer), rectype
        self.cols, self.records = cols, records
        self.name_raw, self.hdr_raw, self.hdr_extra = name_raw, hdr_raw, hdr_extra
        self.start = self.body_start = self.stop = None
        self.rec_stops = []

    @property
    def shape(self):
        return self.trailer[2], self.trailer[1]

    @property
    def mtype(self):
        return self.trailer[4]

    def to_dense(self):
        nrow, ncol = self.shape
        cplx = self.mtype > 2
        A = np.zeros((nrow, ncol), dtype=complex if cplx else float)
        for c, strings in enumerate(self.cols):
            for irow, vals in strings:
                v = np.asarray(vals, dtype=float)
                if cplx:
                    v = v[0::2] + 1j * v[1::2]
                A[irow - 1:irow - 1 + v.shape[0], c] = v
        return A

    def logical_records(self):
        return [b"".join(p) for p in self.records]


class File:
    def __init__(self, blocks, endian="<", bit64=False, header=None, tail_zero_keys=1):
        self.blocks, self.endian, self.bit64 = blocks, endian, bit64
        self.header = header          # None or dict(date=(3 ints), text1=bytes, text2=bytes)
        self.tail_zero_keys = tail_zero_keys
        self.post_header = 0


def real_dtype(mtype, bit64, endian):
    return np.dtype(endian + ("f4" if (mtype & 1 and not bit64) else "f8"))


def stored_values(vals, mtype, bit64):
    v = np.asarray(vals, dtype=float)
    if mtype & 1 and not bit64:
        return v.astype(np.float32).astype(float)
    return v


def pad_name(name, bit64):
    """8 characters; in a 64-bit file every 4 characters sit in an 8-byte word."""
    s = name.encode("ascii").ljust(8)[:8]
    if bit64:
        return s[:4] + b"    " + s[4:] + b"    "
    return s


class _Rd:
    def __init__(self, buf, endian, ksz):
        self.b, self.e, self.ksz, self.pos = buf, endian, ksz, 0
        self.kch = "q" if ksz == 8 else "i"

    def eof(self):
        return self.pos >= len(self.b)

    def record(self):
        b, p = self.b, self.pos
        if p + 4 > len(b):
            raise CodecError(f"truncated length word at {p}")
        n = struct.unpack(self.e + "i", b[p:p + 4])[0]
        if n < 0 or p + 8 + n > len(b):
            raise CodecError(f"record at {p}: length {n} runs past end of file")
        n2 = struct.unpack(self.e + "i", b[p + 4 + n:p + 8 + n])[0]
        if n2 != n:
            raise CodecError(f"record at {p}: leading length {n} != trailing {n2}")
        self.pos = p + 8 + n
        return b[p + 4:p + 4 + n]

    def key(self, expect=None, what=""):
        p = self.pos
        r = self.record()
        if len(r) != self.ksz:
            raise CodecError(f"at {p}: expected a key ({self.ksz} bytes) {what}, found a "
                             f"{len(r)}-byte record")
        k = struct.unpack(self.e + self.kch, r)[0]
        if expect is not None and k != expect:
            raise CodecError(f"at {p}: key {k}, expected {expect} {what}")
        return k

    def data(self, nwords, what=""):
        p = self.pos
        r = self.record()
        if len(r) != nwords * self.ksz:
            raise CodecError(f"at {p}: record of {len(r)} bytes after key {nwords} "
                             f"({self.ksz}-byte words) {what}")
        return r


def decode(buf):
    if len(buf) < 4:
        raise CodecError("file shorter than one length word")
    for endian in "<>":
        n = struct.unpack(endian + "i", buf[:4])[0]
        if n in (4, 8):
            break
    else:
        raise CodecError("first length word is neither 4 nor 8 in either byte order")
    bit64 = n == 8
    ksz = n
    rd = _Rd(buf, endian, ksz)
    kch = rd.kch
    header = None
    first = rd.key()
    if first == 3:
        date = struct.unpack(endian + "3" + kch, rd.data(3, "(header date)"))
        rd.key(7, "(header label)")
        t1 = bytes(rd.data(7, "(header label)"))
        rd.key(2, "(header label 2)")
        t2 = bytes(rd.data(2, "(header label 2)"))
        rd.key(-1, "(header end)")
        rd.key(0, "(header end)")
        header = {"date": tuple(int(d) for d in date), "text1": t1, "text2": t2}
    else:
        rd.pos = 0
    post_header = rd.pos
    blocks = []
    tail = 0
    while not rd.eof():
        start = rd.pos
        k = rd.key()
        if k == 0:
            tail += 1
            if not rd.eof():
                raise CodecError(f"key 0 at {start} where a data block should start, but "
                                 f"the file continues")
            break
        if k != 2:
            raise CodecError(f"at {start}: key {k} where a data block name (key 2) is due")
        name_raw = bytes(rd.data(2, "(block name)"))
        rd.key(-1, "(after name)")
        rd.key(7, "(trailer)")
        trailer = struct.unpack(endian + "7" + kch, rd.data(7, "(trailer)"))
        rd.key(-2, "(after trailer)")
        rd.key(1)
        rd.key(0)
        nh = rd.key()
        if nh < 2:
            raise CodecError(f"block {name_raw!r}: header record of {nh} words")
        hdr_raw = bytes(rd.data(nh, "(header record)"))
        rd.key(-3, "(after header record)")
        rd.key(1)
        rectype = rd.key()
        if rectype not in (0, 1):
            raise CodecError(f"block {name_raw!r}: record type {rectype}")
        name = _clean(name_raw)
        blk = Block(name, trailer, rectype, name_raw=name_raw, hdr_raw=hdr_raw)
        blk.start, blk.body_start = start, rd.pos
        if rectype == 1:
            ncol, nrow, mtype = trailer[1], trailer[2], trailer[4]
            if mtype not in (1, 2, 3, 4):
                raise CodecError(f"matrix {name!r}: type {mtype}")
            dt = real_dtype(mtype, bit64, endian)
            wper = dt.itemsize // ksz if dt.itemsize >= ksz else 1
            per_elem = 2 if mtype > 2 else 1
            cols = []
            c = 0
            more = 1
            while more:
                c += 1
                strings = []
                prev_end = 0
                while True:
                    k = rd.key()
                    if k < 0:
                        break
                    if k == 0:
                        raise CodecError(f"matrix {name!r} col {c}: string key 0")
                    p = rd.pos
                    r = rd.record()
                    if len(r) != ksz + k * ksz:
                        raise CodecError(f"matrix {name!r} col {c}: key {k} but the string "
                                         f"record at {p} has {len(r)} bytes")
                    irow = struct.unpack(endian + kch, r[:ksz])[0]
                    if (k * ksz) % (dt.itemsize * per_elem):
                        raise CodecError(f"matrix {name!r} col {c}: {k} data words do not "
                                         f"hold whole elements")
                    vals = np.frombuffer(r[ksz:], dt).astype(float)
                    nel = vals.shape[0] // per_elem
                    if irow < 1 or irow - 1 + nel > nrow:
                        raise CodecError(f"matrix {name!r} col {c}: rows {irow}.."
                                         f"{irow + nel - 1} outside 1..{nrow}")
                    if irow <= prev_end:
                        raise CodecError(f"matrix {name!r} col {c}: strings overlap / not "
                                         f"ascending")
                    prev_end = irow + nel - 1
                    strings.append((int(irow), vals))
                if k != -(c + 3):
                    raise CodecError(f"matrix {name!r}: column {c} closed by key {k}")
                rd.key(1)
                more = rd.key()
                if more not in (0, 1):
                    raise CodecError(f"matrix {name!r}: continuation flag {more}")
                cols.append(strings)
                blk.rec_stops.append(rd.pos)
            if c != ncol:
                raise CodecError(f"matrix {name!r}: {c} columns in the file, trailer says "
                                 f"{ncol}")
            blk.cols = cols
            rd.key(0, f"(end of matrix {name!r})")
        else:
            records = []
            r_no = 0
            while True:
                k = rd.key()
                if k == 0:
                    break
                # (a negative key right away = a zero-length logical record: no pieces,
                # only the closing keys)
                r_no += 1
                pieces = []
                while k > 0:
                    pieces.append(bytes(rd.data(k, f"(table {name!r} record {r_no})")))
                    k = rd.key()
                if k != -(r_no + 3):
                    raise CodecError(f"table {name!r}: record {r_no} closed by key {k}")
                rd.key(1)
                rd.key(0)
                records.append(pieces)
                blk.rec_stops.append(rd.pos)
            blk.records = records
        blk.stop = rd.pos
        blocks.append(blk)
    f = File(blocks, endian, bit64, header, tail)
    f.post_header = post_header
    return f


def _clean(raw):
    return "".join(chr(c) for c in raw if chr(c).isalnum() or c == 95)


def encode(f):
    e, bit64 = f.endian, f.bit64
    ksz = 8 if bit64 else 4
    kch = "q" if bit64 else "i"
    out = bytearray()

    def rec(payload):
        n = len(payload)
        out.extend(struct.pack(e + "i", n))
        out.extend(payload)
        out.extend(struct.pack(e + "i", n))

    def key(k):
        rec(struct.pack(e + kch, k))

    def data(payload):
        if len(payload) % ksz:
            raise CodecError("record is not a whole number of words")
        key(len(payload) // ksz)
        rec(payload)

    if f.header is not None:
        h = f.header
        key(3)
        rec(struct.pack(e + "3" + kch, *h["date"]))
        key(7)
        rec(h["text1"])
        key(2)
        rec(h["text2"])
        key(-1)
        key(0)
    f.post_header = len(out)
    for b in f.blocks:
        b.start = len(out)
        b.rec_stops = []
        name_raw = b.name_raw if b.name_raw is not None else pad_name(b.name, bit64)
        data(name_raw)
        key(-1)
        data(struct.pack(e + "7" + kch, *b.trailer))
        key(-2)
        key(1)
        key(0)
        if b.hdr_raw is not None:
            hdr = b.hdr_raw
        else:
            hdr = name_raw + (b.hdr_extra or b"")
        data(hdr)
        key(-3)
        key(1)
        key(b.rectype)
        b.body_start = len(out)
        if b.rectype == 1:
            dt = real_dtype(b.mtype, bit64, e)
            ncol = b.trailer[1]
            if len(b.cols) != ncol:
                raise CodecError("matrix needs one (possibly empty) entry per column")
            for c, strings in enumerate(b.cols, 1):
                for irow, vals in strings:
                    body = np.asarray(vals, dtype=float).astype(dt).tobytes()
                    if len(body) % ksz:
                        raise CodecError("string is not a whole number of words")
                    key(len(body) // ksz)
                    rec(struct.pack(e + kch, irow) + body)
                key(-(c + 3))
                key(1)
                key(1 if c < ncol else 0)
                b.rec_stops.append(len(out))
            key(0)
        else:
            for r_no, pieces in enumerate(b.records, 1):
                for p in pieces:
                    data(p)
                key(-(r_no + 3))
                key(1)
                key(0)
                b.rec_stops.append(len(out))
            key(0)
        b.stop = len(out)
    for _ in range(f.tail_zero_keys):
        key(0)
    return bytes(out)


SAMPLE_ROOT = "pyyeti/tests"
SAMPLE_MAX_BYTES = 64_000_000


def sample_files(repo, extra=True):
    """Every *.op2 under pyyeti/tests (extra=False: only nastran_op2_data)."""
    out = []
    for d, _, files in sorted(os.walk(os.path.join(repo, SAMPLE_ROOT))):
        if not extra and os.path.basename(d) != "nastran_op2_data":
            continue
        for fn in sorted(files):
            if fn.endswith(".op2"):
                out.append(os.path.join(d, fn))
    return out


def selfcheck_samples(repo, extra=True):
    ok, bad = 0, []
    stats = {"bit64": 0, "big_endian": 0, "with_header": 0, "matrices": 0, "tables": 0,
             "split_records": 0, "types": {}}
    for path in sample_files(repo, extra):
        if os.path.getsize(path) > SAMPLE_MAX_BYTES:
            continue
        buf = open(path, "rb").read()
        rel = os.path.relpath(path, repo)
        try:
            f = decode(buf)
            again = encode(f)
        except CodecError as e:
            bad.append((rel, "decode/encode: " + str(e)))
            continue
        if again != buf:
            i = next((i for i, (a, b) in enumerate(zip(again, buf)) if a != b),
                     min(len(again), len(buf)))
            bad.append((rel, f"re-encoding differs at byte {i}"))
            continue
        ok += 1
        stats["bit64"] += f.bit64
        stats["big_endian"] += f.endian == ">"
        stats["with_header"] += f.header is not None
        for b in f.blocks:
            if b.rectype == 1:
                stats["matrices"] += 1
                stats["types"][b.mtype] = stats["types"].get(b.mtype, 0) + 1
            else:
                stats["tables"] += 1
                stats["split_records"] += sum(len(p) > 1 for p in b.records)
    return ok, bad, stats
