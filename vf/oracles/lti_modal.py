"""Closed-form sampled response of ONE modal equation  m q'' + b q' + k q = u(t)
under zero/first-order hold, evaluated in mpmath.  No pyyeti imports; written from
the textbook particular + homogeneous solution, not from the Nastran coefficient
formulas that pyYeti transcribes.

It is (a) the cross-check of the Van Loan engine in ``lti.py`` (two derivations that
share nothing but mpmath) and (b) the cheap engine used for the conditioning
perturbations of diagonal systems (a 1e-13 relative input change is resolved exactly
at 40 digits, which a float64 engine cannot do).

Derivation, u(t) = u0 + s t on one step (s = (u1-u0)/h, or 0 for order 0):

  k != 0 :  q_p = (u0 + s t)/k - b s/k^2 ,  q_p' = s/k
  k == 0, b != 0 :  v_p = (u0 + s t)/b - m s/b^2 ,  q_p = u0 t/b + s t^2/(2b) - m s t/b^2
  k == 0, b == 0 :  polynomial
  x(h) = x_p(h) + Phi(h) (x(0) - x_p(0)),  Phi from the roots of m L^2 + b L + k
  (distinct roots, repeated root, or {0, -b/m}).
"""
import numpy as np


def _phi(mp, m, b, k, h):
    """State transition matrix [[F, G], [Fp, Gp]] of the homogeneous equation (mp)."""
    if k == 0:
        if b == 0:
            return mp.mpf(1), h, mp.mpf(0), mp.mpf(1)
        beta = b / m
        ex = mp.exp(-beta * h)
        return mp.mpf(1), (1 - ex) / beta, mp.mpf(0), ex
    disc = b * b - 4 * m * k
    if disc == 0:
        lam = -b / (2 * m)
        ex = mp.exp(lam * h)
        return (1 - lam * h) * ex, h * ex, -lam * lam * h * ex, (1 + lam * h) * ex
    r = mp.sqrt(mp.mpc(disc))
    l1 = (-b + r) / (2 * m)
    l2 = (-b - r) / (2 * m)
    e1 = mp.exp(l1 * h)
    e2 = mp.exp(l2 * h)
    dl = l1 - l2
    F = (l1 * e2 - l2 * e1) / dl
    G = (e1 - e2) / dl
    Fp = l1 * l2 * (e2 - e1) / dl
    Gp = (l1 * e1 - l2 * e2) / dl
    return mp.re(F), mp.re(G), mp.re(Fp), mp.re(Gp)


def mode_step_matrices(m, b, k, h, dps=40):
    """(E, G1, G2) as nested lists of mpf:  x1 = E x0 + G1 u0 + G2 (u1 - u0),
    x = [q, q'].  Inputs may be floats or mpf (taken at face value)."""
    import mpmath as mp
    with mp.workdps(dps):
        m, b, k, h = (mp.mpf(z) for z in (m, b, k, h))
        F, G, Fp, Gp = _phi(mp, m, b, k, h)
        if k != 0:
            # x_p(0) = [u0/k - b D/(h k^2), D/(h k)],  x_p(h) = x_p(0) + [D/k, 0]
            g1 = [(1 - F) / k, -Fp / k]
            p0 = [-b / (h * k * k), 1 / (h * k)]          # coefficient of D in x_p(0)
            g2 = [p0[0] + 1 / k - (F * p0[0] + G * p0[1]),
                  p0[1] - (Fp * p0[0] + Gp * p0[1])]
        elif b != 0:
            # x_p(0) = [0, u0/b - m s/b^2];  x_p(h) = [u0 h/b + s h^2/(2b) - m s h/b^2,
            #                                         (u0 + s h)/b - m s/b^2]
            g1 = [h / b - G / b, 1 / b - Gp / b]
            c = -m / (h * b * b)                          # coefficient of D in v_p(0)
            g2 = [h / (2 * b) - m / (b * b) - G * c, 1 / b + c - Gp * c]
        else:
            g1 = [h * h / (2 * m), h / m]
            g2 = [h * h / (6 * m), h / (2 * m)]
        return [[F, G], [Fp, Gp]], g1, g2


def mode_response(m, b, k, f, h, d0=0.0, v0=0.0, order=1, dps=40, rel=None):
    """d, v, a (float arrays, length nt) of one modal equation for force samples f.

    ``rel`` : optional dict of relative perturbations {"m","b","k","h","d0","v0"} plus
    "f" (array like f) applied as x*(1+rel) in mp *before* solving -- the conditioning
    probe of DESIGN 4.2.
    """
    import mpmath as mp
    f = np.asarray(f, dtype=float).ravel()
    nt = f.size
    with mp.workdps(dps):
        rel = rel or {}

        def P(name, x):
            x = mp.mpf(float(x))
            return x * (1 + mp.mpf(float(rel[name]))) if name in rel else x
        m_, b_, k_, h_ = P("m", m), P("b", b), P("k", k), P("h", h)
        if "f" in rel:
            rf = np.asarray(rel["f"], dtype=float).ravel()
            u = [mp.mpf(float(f[i])) * (1 + mp.mpf(float(rf[i]))) for i in range(nt)]
        else:
            u = [mp.mpf(float(x)) for x in f]
        E, g1, g2 = mode_step_matrices(m_, b_, k_, h_, dps)
        q, qd = P("d0", d0), P("v0", v0)
        d = np.empty(nt)
        v = np.empty(nt)
        a = np.empty(nt)
        for i in range(nt):
            d[i] = float(q)
            v[i] = float(qd)
            a[i] = float((u[i] - b_ * qd - k_ * q) / m_)
            if i == nt - 1:
                break
            D = (u[i + 1] - u[i]) if order == 1 else 0
            q, qd = (E[0][0] * q + E[0][1] * qd + g1[0] * u[i] + g2[0] * D,
                     E[1][0] * q + E[1][1] * qd + g1[1] * u[i] + g2[1] * D)
        return d, v, a


def selfcheck(dps=40):
    """Closed form vs Van Loan (lti.vanloan in mp) on one mode of every kind.

    Returns the worst relative disagreement of the step matrices (should be ~1e-35).
    """
    import mpmath as mp
    from vf.oracles import lti
    worst = mp.mpf(0)
    # masses are powers of two so that the float quotients handed to Van Loan are exact
    cases = [(1.0, 0.0, 4.0, 0.3), (2.0, 0.4, 50.0, 0.05), (1.0, 2.0, 1.0, 0.7),
             (4.0, 60.0, 12.0, 0.2), (0.5, 0.0, 0.0, 0.1), (0.5, 0.3, 0.0, 0.1),
             (1.0, 2 * (1 - 1e-9), 1.0, 1.0), (1.0, 200.0, 4.0, 2.0)]
    with mp.workdps(dps):
        for m, b, k, h in cases:
            E, g1, g2 = mode_step_matrices(m, b, k, h, dps)
            A = np.array([[0.0, 1.0], [-k / m, -b / m]])
            Bc = np.array([[0.0], [1.0 / m]])
            Ev, G1v, G2v = lti.vanloan(A, Bc, h, dps)
            pairs = [(E[0][0], Ev[0, 0]), (E[0][1], Ev[0, 1]), (E[1][0], Ev[1, 0]),
                     (E[1][1], Ev[1, 1]), (g1[0], G1v[0, 0]), (g1[1], G1v[1, 0]),
                     (g2[0], G2v[0, 0]), (g2[1], G2v[1, 0])]
            sc = max(abs(x) for _, x in pairs)
            for x, y in pairs:
                worst = max(worst, abs(x - y) / sc)
        return float(worst)
