"""Arbitrary-precision reference for

    E  = exp(A h),   I1 = int_0^h exp(A t) dt,   I2 = int_0^h t exp(A t) dt

and for the E, P, Q coefficient matrices built from them.  No pyyeti imports.

Primary engine (``expm_ints``): Taylor series of the three entire functions on the
scaled matrix ``A h / 2^s`` (``||.||_1 <= 1/2``) carried in mpmath at ``dps`` digits,
followed by ``s`` exact doubling steps

    I2(2t) = I2(t) + E(t) (I2(t) + t I1(t))
    I1(2t) = I1(t) + E(t) I1(t)
    E(2t)  = E(t) E(t)

(these follow from int_t^2t f(u) e^{Au} du = E(t) int_0^t f(u+t) e^{Au} du).  All of it
is n x n work in mp floats, whose exponent range is unbounded, so stiff and strongly
decaying cases neither overflow nor flush to zero.

Second engine (``expm_ints_aug``): one ``mp.expm`` of Van Loan's augmented matrix

    Z = h [[A, I, 0], [0, 0, I], [0, 0, 0]],  exp(Z) = [[E, I1, h I1 - I2], ., .]

Third engine (``expm_ints_quad``): element-wise ``mp.quad`` of ``expm(A t)`` (small n).
``selfcheck`` compares the three on fixed 2 x 2 / 3 x 3 cases (singular, defective,
oscillatory, stiff); it is run by every shard before anything is judged.
"""
import numpy as np


def _mp():
    import mpmath
    return mpmath.mp


def to_mp(A):
    """Exact conversion of a real float array to an mp matrix."""
    mp = _mp()
    A = np.atleast_2d(np.asarray(A, dtype=float))
    M = mp.zeros(A.shape[0], A.shape[1])
    for i in range(A.shape[0]):
        for j in range(A.shape[1]):
            if A[i, j] != 0.0:
                M[i, j] = mp.mpf(float(A[i, j]))
    return M


def to_np(M):
    """Round an mp matrix to float64 (overflow -> inf, tiny -> 0/subnormal)."""
    out = np.empty((M.rows, M.cols), dtype=float)
    for i in range(M.rows):
        for j in range(M.cols):
            try:
                out[i, j] = float(M[i, j])
            except OverflowError:
                out[i, j] = np.inf if M[i, j] > 0 else -np.inf
    return out


def _norm1(M):
    mp = _mp()
    best = mp.mpf(0)
    for j in range(M.cols):
        s = mp.mpf(0)
        for i in range(M.rows):
            s += abs(M[i, j])
        if s > best:
            best = s
    return best


def expm_ints(A, h, dps=60):
    """(E, I1, I2) as mp matrices at ``dps`` digits; A real n x n float array."""
    mp = _mp()
    with mp.workdps(dps + 10):
        n = np.atleast_2d(A).shape[0]
        hh = mp.mpf(float(h))
        X = to_mp(A) * hh
        nrm = _norm1(X)
        s = 0
        if nrm > mp.mpf("0.5"):
            s = int(mp.ceil(mp.log(nrm, 2))) + 1
        X = X / mp.mpf(2) ** s
        hs = hh / mp.mpf(2) ** s
        eye = mp.eye(n)
        # E  = sum X^k / k!
        # F1 = sum X^k / (k+1)!            I1 = hs   * F1
        # F2 = sum X^k / ((k+2) k!)        I2 = hs^2 * F2
        E = eye.copy()
        F1 = eye.copy()
        F2 = eye / 2
        term = eye.copy()          # X^k / k!
        small = mp.mpf(10) ** (-(dps + 12))
        k = 0
        while True:
            k += 1
            term = term * X / k
            E += term
            F1 += term / (k + 1)
            F2 += term / (k + 2)
            if _norm1(term) < small or k > 400:
                break
        if k > 400:
            raise ArithmeticError("expm_mp: Taylor series did not converge")
        I1 = F1 * hs
        I2 = F2 * (hs * hs)
        for _ in range(s):
            I2 = I2 + E * (I2 + I1 * hs)
            I1 = I1 + E * I1
            E = E * E
            hs = hs * 2
        return E, I1, I2


def expm_ints_aug(A, h, dps=60):
    """Same three matrices from one mp.expm of the 3n x 3n augmented matrix."""
    mp = _mp()
    with mp.workdps(dps + 10):
        n = np.atleast_2d(A).shape[0]
        hh = mp.mpf(float(h))
        Z = mp.zeros(3 * n, 3 * n)
        Am = to_mp(A)
        for i in range(n):
            for j in range(n):
                Z[i, j] = Am[i, j] * hh
            Z[i, n + i] = hh
            Z[n + i, 2 * n + i] = hh
        X = mp.expm(Z, method="taylor")
        E = X[:n, :n]
        I1 = X[:n, n:2 * n]
        I2 = I1 * hh - X[:n, 2 * n:]
        return E, I1, I2


def expm_ints_quad(A, h, dps=20):
    """Element-wise numerical quadrature of mp.expm(A t) (reference of the reference)."""
    mp = _mp()
    with mp.workdps(dps):
        n = np.atleast_2d(A).shape[0]
        Am = to_mp(A)
        hh = mp.mpf(float(h))
        E = mp.expm(Am * hh, method="taylor")
        I1 = mp.zeros(n, n)
        I2 = mp.zeros(n, n)
        for i in range(n):
            for j in range(n):
                f = lambda t, i=i, j=j: mp.expm(Am * t, method="taylor")[i, j]
                g = lambda t, i=i, j=j: t * mp.expm(Am * t, method="taylor")[i, j]
                I1[i, j] = mp.quad(f, mp.linspace(0, hh, 5))
                I2[i, j] = mp.quad(g, mp.linspace(0, hh, 5))
        return E, I1, I2


def epq_from_ints(E, I1, I2, h, order, B=None, half=False):
    """E, P, Q (mp matrices; Q is None for order 0) from the three integrals.

        order 1:  P = (I2/h) B,  Q = (I1 - I2/h) B
        order 0:  P = I1 B
    B None -> identity, or its first n/2 columns when ``half``.
    """
    mp = _mp()
    n = E.rows
    if B is None:
        r = n // 2 if half else n
        Bm = mp.zeros(n, r)
        for i in range(r):
            Bm[i, i] = mp.mpf(1)
    else:
        Bm = B if hasattr(B, "rows") else to_mp(B)
    hh = mp.mpf(float(h))
    if order == 1:
        P = (I2 / hh) * Bm
        Q = (I1 - I2 / hh) * Bm
        return E, P, Q
    return E, I1 * Bm, None


def maxabs_diff(X, Y):
    mp = _mp()
    d = mp.mpf(0)
    for i in range(X.rows):
        for j in range(X.cols):
            e = abs(X[i, j] - Y[i, j])
            if e > d:
                d = e
    return d


def maxabs(X):
    mp = _mp()
    d = mp.mpf(0)
    for i in range(X.rows):
        for j in range(X.cols):
            e = abs(X[i, j])
            if e > d:
                d = e
    return d


_SELF = [
    # (A, h)  -- singular, defective, oscillatory, stiff, nilpotent, dense 3x3
    ([[0.0, 1.0], [0.0, 0.0]], 0.7),
    ([[0.0, 0.0], [0.0, 0.0]], 2.0),
    ([[-2.0, 1.0], [0.0, -2.0]], 1.3),
    ([[0.0, 3.0], [-3.0, 0.0]], 2.1),
    ([[-1.0, 0.0], [0.0, -40.0]], 0.9),
    ([[1.0, 2.0], [0.5, 1.0]], 0.4),          # rank 1
    ([[1.0, 2.0, 3.0], [4.0, 5.0, 6.0], [7.0, 8.0, 9.0]], 0.05),
]


def selfcheck(quad=False):
    """Three engines agree on the fixed cases; closed forms for the scalar-like ones.

    ``quad=False`` runs the (slow) quadrature engine on two of the 2 x 2 cases only
    (defective and rank-1); ``quad=True`` on all six."""
    mp = _mp()
    for k, (A, h) in enumerate(_SELF):
        A = np.array(A)
        a = expm_ints(A, h, 50)
        b = expm_ints_aug(A, h, 50)
        for x, y in zip(a, b):
            sc = max(maxabs(x), mp.mpf(1))
            if maxabs_diff(x, y) > sc * mp.mpf(10) ** -45:
                return False
        if A.shape[0] == 2 and (quad or k in (2, 5)):
            c = expm_ints_quad(A, h, 20)
            for x, z in zip(a, c):
                sc = max(maxabs(x), mp.mpf(1))
                if maxabs_diff(x, z) > sc * mp.mpf(10) ** -15:
                    return False
    with mp.workdps(60):
        # nilpotent closed form:  E = I + N h, I1 = h I + N h^2/2, I2 = h^2/2 I + N h^3/3
        h = mp.mpf("0.7")
        E, I1, I2 = expm_ints(np.array([[0.0, 1.0], [0.0, 0.0]]), 0.7, 50)
        hf = mp.mpf(0.7)
        if abs(E[0, 1] - hf) > 1e-45 or abs(I1[0, 1] - hf ** 2 / 2) > 1e-45 \
                or abs(I2[0, 1] - hf ** 3 / 3) > 1e-45 or abs(I2[0, 0] - hf ** 2 / 2) > 1e-45:
            return False
        # scalar closed form a = -3: I1 = (e^{ah}-1)/a, I2 = (h e^{ah} - I1)/a
        E, I1, I2 = expm_ints(np.array([[-3.0]]), 0.25, 50)
        a, hq = mp.mpf(-3), mp.mpf(0.25)
        e = mp.exp(a * hq)
        i1 = (e - 1) / a
        i2 = (hq * e - i1) / a
        if abs(E[0, 0] - e) > 1e-45 or abs(I1[0, 0] - i1) > 1e-45 \
                or abs(I2[0, 0] - i2) > 1e-45:
            return False
    return True
