"""Exact response of a base-driven single-DOF oscillator to piecewise-linear input.

    u'' + 2 zeta w u' + w^2 u = -z(t)          u = x - z  (relative coordinate)

``z`` is the base acceleration, linear between samples spaced ``h``.  With the state
``x = (u, u')`` the sampled solution is the exact recurrence

    x[k+1] = E x[k] + G1 z[k] + G2 (z[k+1] - z[k])

``E, G1, G2`` come from the closed-form homogeneous + particular solution (underdamped,
``zeta < 1``; polynomial for ``w = 0``) evaluated in mpmath with enough digits that the
``(w h)^-3`` cancellation of the particular solution is harmless, then rounded to
float64.  The recurrence itself runs in float64 (or in mpmath with ``dps=``), vectorised
over signal columns and oscillator frequencies.  No pyyeti imports; nothing here uses a
digital-filter (transfer-function) formulation.

Responses returned (each ``n x ncol x nfreq``):

    reldisp = u                 relvelo = u'
    relacce = -z - 2 zeta w u' - w^2 u         absacce = -2 zeta w u' - w^2 u
    pvelo   = w u               pacce   = w^2 u

:func:`selfcheck` compares the step matrices with the Van Loan construction of
``vf.oracles.lti`` (mpmath) and the simulated histories with the analytic step and ramp
responses.
"""
import numpy as np

STYPES = ("absacce", "relacce", "reldisp", "relvelo", "pvelo", "pacce")


def _digits(wh):
    import math
    if wh <= 0:
        return 40
    return 40 + 3 * max(0, int(math.ceil(-math.log10(min(wh, 1.0)))))


def step_matrices_mp(w, zeta, h):
    """(E, G1, G2) as nested lists of mpf for one oscillator (w rad/s, zeta < 1)."""
    import mpmath as mp
    w = float(w)
    zeta = float(zeta)
    h = float(h)
    if not (0 <= zeta < 1):
        raise ValueError("underdamped oscillators only")
    with mp.workdps(_digits(w * h)):
        hh = mp.mpf(h)
        if w == 0.0:
            E = [[mp.mpf(1), hh], [mp.mpf(0), mp.mpf(1)]]
            G1 = [-hh * hh / 2, -hh]
            G2 = [-hh * hh / 6, -hh / 2]
            return E, G1, G2
        ww = mp.mpf(w)
        z = mp.mpf(zeta)
        a = z * ww
        wd = ww * mp.sqrt(1 - z * z)
        e = mp.exp(-a * hh)
        c = mp.cos(wd * hh)
        s = mp.sin(wd * hh)
        E = [[e * (c + a * s / wd), e * s / wd],
             [-e * ww * ww * s / wd, e * (c - a * s / wd)]]
        w2 = ww * ww
        # particular solution for forcing -(z0 + b t):  up = -(z0 + b t)/w^2 + 2 zeta b/w^3
        # coefficient of z0 (b = 0):  xp = [-1/w^2, 0] at both ends
        p = [-1 / w2, mp.mpf(0)]
        G1 = [p[0] - (E[0][0] * p[0] + E[0][1] * p[1]),
              p[1] - (E[1][0] * p[0] + E[1][1] * p[1])]
        # coefficient of dz = z1 - z0 (b = dz/h)
        p0 = [2 * z / (w2 * ww * hh), -1 / (w2 * hh)]
        ph = [-1 / w2 + 2 * z / (w2 * ww * hh), -1 / (w2 * hh)]
        G2 = [ph[0] - (E[0][0] * p0[0] + E[0][1] * p0[1]),
              ph[1] - (E[1][0] * p0[0] + E[1][1] * p0[1])]
        return E, G1, G2


def step_matrices(w, zeta, h):
    """float64 (E 2x2, G1 2, G2 2), correctly rounded from the mp closed form."""
    E, G1, G2 = step_matrices_mp(w, zeta, h)
    return (np.array([[float(E[0][0]), float(E[0][1])],
                      [float(E[1][0]), float(E[1][1])]]),
            np.array([float(G1[0]), float(G1[1])]),
            np.array([float(G2[0]), float(G2[1])]))


_CACHE = {}


def _cached_step(w, zeta, h):
    key = (float(w), float(zeta), float(h))
    r = _CACHE.get(key)
    if r is None:
        if len(_CACHE) > 20000:
            _CACHE.clear()
        r = _CACHE[key] = step_matrices(*key)
    return r


def simulate(z, h, ws, zetas, u0=None, v0=None, lead_in=False):
    """States of every oscillator for every column.

    z      : (n,) or (n, ncol) base acceleration samples, spacing h; or a batch
             (B, n, ncol) of records, each with its own oscillator set
    ws     : (nf,) natural frequencies in rad/s (0 allowed); (B, nf) for a batch
    zetas  : scalar or same shape as ws (< 1)
    u0, v0 : initial state at the first sample, broadcastable to (ncol, nf)
             [(B, ncol, nf) for a batch]; default 0
    lead_in: start from rest one step *before* the record with z = 0 there (the input
             ramps from 0 to z[0] over that step); u0/v0 then apply to that earlier time

    Returns u, v  each (n, ncol, nf)  [(B, n, ncol, nf) for a batch].
    """
    z = np.asarray(z, dtype=float)
    batch = z.ndim == 3
    if z.ndim == 1:
        z = z[:, None]
    if not batch:
        z = z[None]
    ws = np.asarray(ws, dtype=float)
    ws = np.atleast_1d(ws)
    if ws.ndim == 1:
        ws = np.broadcast_to(ws, (z.shape[0], ws.size))
    zetas = np.broadcast_to(np.asarray(zetas, dtype=float), ws.shape)
    B, n, ncol = z.shape
    nf = ws.shape[1]
    co = np.empty((8, B, 1, nf))
    for b in range(B):
        for i in range(nf):
            E, G1, G2 = _cached_step(ws[b, i], zetas[b, i], h)
            co[:, b, 0, i] = (E[0, 0], E[0, 1], E[1, 0], E[1, 1],
                              G1[0], G1[1], G2[0], G2[1])
    e11, e12, e21, e22, g1u, g1v, g2u, g2v = co
    if lead_in:
        z = np.concatenate([np.zeros((B, 1, ncol)), z], axis=1)
        n += 1
    u = np.empty((n, B, ncol, nf))
    v = np.empty((n, B, ncol, nf))
    u[0] = 0.0 if u0 is None else np.broadcast_to(u0, (B, ncol, nf))
    v[0] = 0.0 if v0 is None else np.broadcast_to(v0, (B, ncol, nf))
    zt = np.moveaxis(z, 1, 0)[..., None]          # (n, B, ncol, 1)
    dz = np.diff(zt, axis=0)
    fu = g1u * zt[:-1] + g2u * dz                 # forcing terms, (n-1, B, ncol, nf)
    fv = g1v * zt[:-1] + g2v * dz
    for k in range(n - 1):
        uk, vk = u[k], v[k]
        u[k + 1] = e11 * uk + e12 * vk + fu[k]
        v[k + 1] = e21 * uk + e22 * vk + fv[k]
    if lead_in:
        u, v = u[1:], v[1:]
    u = np.moveaxis(u, 0, 1)
    v = np.moveaxis(v, 0, 1)
    if not batch:
        return u[0], v[0]
    return u, v


def responses(z, h, ws, zetas, u, v, which=STYPES):
    """The response quantities from the states; shapes as returned by :func:`simulate`."""
    z = np.asarray(z, dtype=float)
    if z.ndim == 1:
        z = z[:, None]
    ws = np.atleast_1d(np.asarray(ws, dtype=float))
    zetas = np.broadcast_to(np.asarray(zetas, dtype=float), ws.shape)
    if u.ndim == 4:                      # batch: coefficients (B, 1, 1, nf)
        if ws.ndim == 1:
            ws = np.broadcast_to(ws, (u.shape[0], ws.size))
            zetas = np.broadcast_to(zetas, ws.shape)
        ws = ws[:, None, None, :]
        zetas = zetas[:, None, None, :]
    c = 2 * zetas * ws
    k = ws * ws
    out = {}
    for s in which:
        if s == "reldisp":
            out[s] = u.copy()
        elif s == "relvelo":
            out[s] = v.copy()
        elif s == "relacce":
            out[s] = -z[..., None] - c * v - k * u
        elif s == "absacce":
            out[s] = -c * v - k * u
        elif s == "pvelo":
            out[s] = ws * u
        elif s == "pacce":
            out[s] = k * u
        else:
            raise ValueError(s)
    return out


def simulate_mp(z, h, w, zeta, u0=0.0, v0=0.0, lead_in=False, dps=40):
    """One column, one oscillator, recurrence carried in mpmath; returns float u, v."""
    import mpmath as mp
    z = [float(t) for t in np.asarray(z, dtype=float).ravel()]
    if lead_in:
        z = [0.0] + z
    E, G1, G2 = step_matrices_mp(w, zeta, h)
    with mp.workdps(max(dps, _digits(float(w) * float(h)))):
        uk, vk = mp.mpf(float(u0)), mp.mpf(float(v0))
        us, vs = [uk], [vk]
        for k in range(len(z) - 1):
            zk = mp.mpf(z[k])
            dk = mp.mpf(z[k + 1]) - zk
            uk, vk = (E[0][0] * uk + E[0][1] * vk + G1[0] * zk + G2[0] * dk,
                      E[1][0] * uk + E[1][1] * vk + G1[1] * zk + G2[1] * dk)
            us.append(uk)
            vs.append(vk)
        u = np.array([float(t) for t in us])
        v = np.array([float(t) for t in vs])
    if lead_in:
        return u[1:], v[1:]
    return u, v


# -- analytic references used only to check this file -------------------------------

def _analytic(kind, t, w, zeta):
    """u, v from rest for z = 1 (kind 'step') or z = t (kind 'ramp'), evaluated in mp."""
    import mpmath as mp
    us, vs = [], []
    with mp.workdps(60):
        w_, z_ = mp.mpf(float(w)), mp.mpf(float(zeta))
        a = z_ * w_
        wd = w_ * mp.sqrt(1 - z_ * z_)
        for tt in t:
            tt = mp.mpf(float(tt))
            e = mp.exp(-a * tt)
            c, s = mp.cos(wd * tt), mp.sin(wd * tt)
            if kind == "step":
                u = -(1 - e * (c + a / wd * s)) / w_ ** 2
                v = -e * s / wd
            else:
                A = -2 * z_ / w_ ** 3
                B = (1 - 2 * z_ ** 2) / (w_ ** 2 * wd)
                u = -tt / w_ ** 2 + 2 * z_ / w_ ** 3 + e * (A * c + B * s)
                v = -1 / w_ ** 2 + e * (-a * (A * c + B * s) + wd * (-A * s + B * c))
            us.append(float(u))
            vs.append(float(v))
    return np.array(us), np.array(vs)


def selfcheck(verbose=False):
    """Worst relative discrepancies of this oracle against its own references.

    Returns a dict; every entry must be ~1e-13 or smaller (asserted by the caller).
    """
    from vf.oracles import lti
    worst = {"vanloan": 0.0, "step": 0.0, "ramp": 0.0, "rigid": 0.0, "mp-rec": 0.0}
    # dyadic sample rates: t = k h is exact, so the analytic references see the same grid
    for (fn, Q, sr) in ((10.0, 10.0, 1024.0), (3.0, 0.5001, 64.0), (250.0, 50.0, 512.0),
                        (1.0, 1000.0, 2048.0), (40.0, 0.7, 128.0)):
        w, zeta, h = 2 * np.pi * fn, 1 / (2 * Q), 1 / sr
        E, G1, G2 = step_matrices(w, zeta, h)
        A = np.array([[0.0, 1.0], [-w * w, -2 * zeta * w]])
        Bc = np.array([[0.0], [-1.0]])
        Ev, G1v, G2v = lti.vanloan(A, Bc, h, dps=50)
        for got, ref in ((E, Ev), (G1[:, None], G1v), (G2[:, None], G2v)):
            for i in range(ref.rows):
                for j in range(ref.cols):
                    r = float(ref[i, j])
                    worst["vanloan"] = max(worst["vanloan"],
                                           abs(got[i, j] - r) / abs(r))
        n = 200
        t = np.arange(n) * h
        u, v = simulate(np.ones(n), h, [w], zeta)
        ue, ve = _analytic("step", t, w, zeta)
        worst["step"] = max(worst["step"], np.abs(u[:, 0, 0] - ue).max() / np.abs(ue).max(),
                            np.abs(v[:, 0, 0] - ve).max() / np.abs(ve).max())
        u, v = simulate(t, h, [w], zeta)
        ue, ve = _analytic("ramp", t, w, zeta)
        worst["ramp"] = max(worst["ramp"], np.abs(u[:, 0, 0] - ue).max() / np.abs(ue).max(),
                            np.abs(v[:, 0, 0] - ve).max() / np.abs(ve).max())
        zz = np.sin(np.arange(60) * 0.7) + 0.3
        u, v = simulate(zz, h, [w], zeta, lead_in=True)
        um, vm = simulate_mp(zz, h, w, zeta, lead_in=True)
        worst["mp-rec"] = max(worst["mp-rec"],
                              np.abs(u[:, 0, 0] - um).max() / np.abs(um).max(),
                              np.abs(v[:, 0, 0] - vm).max() / np.abs(vm).max())
    # rigid body (w = 0): z = 1 -> u = -t^2/2, v = -t ; z = t -> u = -t^3/6, v = -t^2/2
    h = 0.01
    t = np.arange(50) * h
    u, v = simulate(np.column_stack([np.ones(50), t]), h, [0.0], 0.05)
    for got, ref in ((u[:, 0, 0], -t ** 2 / 2), (v[:, 0, 0], -t),
                     (u[:, 1, 0], -t ** 3 / 6), (v[:, 1, 0], -t ** 2 / 2)):
        worst["rigid"] = max(worst["rigid"], np.abs(got - ref).max() / np.abs(ref).max())
    if verbose:
        print(worst)
    return worst
