"""Ambient monitors on the repository's own test-suite (DESIGN 2.8).

A pytest plugin (``-p vf.ambient``; active only with PYYETI_VERIF=1) that attaches cheap
invariant monitors to the real functions while the repository's tests run.  Monitors
never raise into the test: they record to a list that is dumped to the JSON file named by
``VF_AMBIENT_OUT`` when the session ends.  It is an *extra workload* for the thorough tier
(the tests call the functions with inputs our generators did not invent), never the
deciding one.

``run(sh, spec)`` is what a shard calls: it runs pytest in a subprocess on the listed test
files with the listed monitors and folds the observations into the shard collector.
"""
import functools
import json
import os
import subprocess
import sys

_REC = {"calls": {}, "violations": []}
_ON = [True]


def _count(name):
    _REC["calls"][name] = _REC["calls"].get(name, 0) + 1


def _viol(kind, detail):
    if len(_REC["violations"]) < 100:
        _REC["violations"].append({"kind": kind, "detail": detail})


def _guard(fn):
    """Run a monitor body; a crash of the monitor itself is recorded, never raised."""
    @functools.wraps(fn)
    def inner(*a, **k):
        if not _ON[0]:
            return
        _ON[0] = False      # monitors must not observe calls made by monitors
        try:
            fn(*a, **k)
        except Exception as e:  # pragma: no cover
            _REC["calls"]["monitor-error:" + fn.__name__] = \
                _REC["calls"].get("monitor-error:" + fn.__name__, 0) + 1
            import traceback
            _REC.setdefault("monitor_errors", []).append(
                repr(e)[:300] + " | " + traceback.format_exc()[-400:])
        finally:
            _ON[0] = True
    return inner


# ------------------------------------------------------------------ monitors ----------

def mon_format():
    from pyyeti.nastran import bulk

    def wrap(name, width):
        orig = getattr(bulk, name)

        @_guard
        def check(value, out):
            _count("format:" + name)
            if not isinstance(out, str) or len(out) != width:
                _viol("ambient-format-width", {"fn": name, "value": repr(value),
                                               "out": repr(out)})
                return
            back = bulk.nas_sscanf(out)
            v = float(value)
            if not isinstance(back, float) and not isinstance(back, int):
                _viol("ambient-format-unparsed", {"fn": name, "value": repr(value),
                                                  "out": out})
            elif v == v and abs(v) < 1e300 and abs(back - v) > 1e-3 * abs(v) + 1e-300:
                _viol("ambient-format-value", {"fn": name, "value": repr(value),
                                               "out": out, "back": back})

        @functools.wraps(orig)
        def w(value):
            out = orig(value)
            check(value, out)
            return out
        setattr(bulk, name, w)
    for name, width in (("format_float8", 8), ("format_float16", 16),
                        ("format_double16", 16)):
        if hasattr(bulk, name):
            wrap(name, width)


def mon_rainflow():
    import numpy as np
    from pyyeti import cyclecount
    mods = [cyclecount.rain]
    try:
        import pyyeti.rainflow.py_rain as pr
        if pr not in mods:
            mods.append(pr)
    except Exception:
        pass

    @_guard
    def check(peaks, getoffsets, out):
        _count("rainflow")
        x = np.asarray(peaks, dtype=float).ravel()
        rf = out[0] if getoffsets else out
        rf = np.asarray(rf, float)
        if 2 * rf[:, 2].sum() != x.size - 1:
            _viol("ambient-rainflow-conservation", {"L": int(x.size),
                                                    "2sum": float(2 * rf[:, 2].sum())})
        if getoffsets:
            os_ = np.asarray(out[1]).astype(int)
            a, b = x[os_[:, 0]], x[os_[:, 1]]
            if not (np.array_equal(rf[:, 0], abs(a - b) / 2)
                    and np.array_equal(rf[:, 1], (a + b) / 2)):
                _viol("ambient-rainflow-offsets", {"L": int(x.size)})

    for m in mods:
        orig = m.rainflow

        def w(peaks, getoffsets=False, _orig=orig):
            out = _orig(peaks, getoffsets)
            check(peaks, getoffsets, out)
            return out
        try:
            m.rainflow = w
        except Exception:
            pass


def mon_findap():
    import numpy as np
    from pyyeti import cyclecount
    orig = cyclecount.findap

    @_guard
    def check(y, pv):
        _count("findap")
        y = np.asarray(y).ravel()
        pv = np.asarray(pv)
        if pv.shape != y.shape or not pv[0]:
            _viol("ambient-findap-start", {"n": int(y.size)})
            return
        s = y[pv]
        if s.size > 2:
            d = np.diff(s)
            if np.any(d == 0) or np.any(d[1:] * d[:-1] >= 0):
                _viol("ambient-findap-alternation", {"n": int(y.size),
                                                     "sel": s[:12].tolist()})

    @functools.wraps(orig)
    def w(y, tol=1e-6):
        pv = orig(y, tol)
        check(y, pv)
        return pv
    cyclecount.findap = w


def mon_eom():
    """Equation-of-motion residual of every tsolve return (SolveUnc, SolveExp2)."""
    import numpy as np
    from pyyeti import ode

    def full(x, n):
        x = np.asarray(x)
        return np.diag(x) if x.ndim == 1 else x

    def wrap(cls):
        orig = cls.tsolve

        @_guard
        def check(self, force, sol):
            if getattr(self, "pre_eig", False) or getattr(self, "cdforces", False):
                return
            n = self.n
            F = np.atleast_2d(force)
            if F.shape != sol.d.shape:
                return
            K = full(self.k_orig, n)
            B = full(self.b_orig, n)
            M = np.eye(n) if self.m_orig is None else full(self.m_orig, n)
            nonrf = np.asarray(self.nonrf) if not isinstance(self.nonrf, slice) \
                else np.arange(n)[self.nonrf]
            if nonrf.size == 0:
                return
            # the solvers partition the residual-flexibility rows off (documented
            # domain: rf block uncoupled from the rest), so judge the non-rf block
            nn = np.ix_(nonrf, nonrf)
            M, B, K = M[nn], B[nn], K[nn]
            a, v, d, F = sol.a[nonrf], sol.v[nonrf], sol.d[nonrf], F[nonrf]
            terms = abs(M) @ abs(a) + abs(B) @ abs(v) + abs(K) @ abs(d) + abs(F)
            res = M @ a + B @ v + K @ d - F
            nonrf = slice(None)
            scale = terms.max()
            if not np.isfinite(scale) or scale == 0:
                return
            _count("eom:" + cls.__name__)
            r = abs(res[nonrf]).max() / scale
            _REC["calls"]["eom-worst"] = max(_REC["calls"].get("eom-worst", 0.0),
                                             float(r))
            if r > 1e-8:
                _viol("ambient-eom-residual", {"solver": cls.__name__, "n": int(n),
                                               "rel": float(r)})

        @functools.wraps(orig)
        def w(self, force, *a, **k):
            sol = orig(self, force, *a, **k)
            check(self, force, sol)
            return sol
        cls.tsolve = w
    for cls in (ode.SolveUnc, ode.SolveExp2):
        wrap(cls)


def mon_extrema():
    """Running extrema never move the wrong way (two-column form)."""
    import numpy as np
    from pyyeti.cla import _utilities, dr_results
    import pyyeti.cla as cla
    orig = _utilities.extrema

    @_guard
    def check(before, curext, mm):
        _count("extrema")
        if before is None or curext.ext is None:
            return
        with np.errstate(invalid="ignore"):
            if mm.ext.shape[1] == 2:
                bad = (curext.ext[:, 0] < before[:, 0]) | (curext.ext[:, 1] > before[:, 1])
            else:
                bad = (abs(curext.ext[:, 0]) < abs(before[:, 0])) | \
                      (abs(curext.ext[:, 1]) > abs(before[:, 1]))
        if np.any(bad):
            _viol("ambient-extrema-monotone", {"rows": int(bad.sum())})

    @functools.wraps(orig)
    def w(curext, mm, *a, **k):
        try:  # never raise before the real call
            ext = getattr(curext, "ext", None)
            before = None if ext is None else np.array(ext, copy=True)
        except Exception:
            before = None
        out = orig(curext, mm, *a, **k)
        check(before, curext, mm)
        return out
    for m in (_utilities, dr_results, cla):
        if getattr(m, "extrema", None) is orig:
            m.extrema = w


def mon_fsolve():
    """Dynamic-stiffness residual of every fsolve return (SolveUnc, FreqDirect): the
    returned a, v, d satisfy M a + B v + K d = F on the non-rf block (default options)."""
    import numpy as np
    from pyyeti import ode

    def full(x, n):
        x = np.asarray(x)
        return np.diag(x) if x.ndim == 1 else x

    def wrap(cls):
        orig = cls.fsolve

        @_guard
        def check(self, force, freq, incrb, rf_disp_only, sol):
            if rf_disp_only or sorted(str(incrb)) != ["a", "d", "v"]:
                return
            n = self.n
            F = np.atleast_2d(force)
            if F.shape != sol.d.shape:
                return
            K = full(self.k_orig, n)
            B = full(self.b_orig, n)
            M = np.eye(n) if self.m_orig is None else full(self.m_orig, n)
            nonrf = np.asarray(self.nonrf) if not isinstance(self.nonrf, slice) \
                else np.arange(n)[self.nonrf]
            if nonrf.size == 0:
                return
            if getattr(self, "pre_eig", False) and nonrf.size != n:
                return              # rf rows are modal rows there
            nn = np.ix_(nonrf, nonrf)
            M, B, K = M[nn], B[nn], K[nn]
            a, v, d, F = sol.a[nonrf], sol.v[nonrf], sol.d[nonrf], F[nonrf]
            terms = abs(M) @ abs(a) + abs(B) @ abs(v) + abs(K) @ abs(d) + abs(F)
            res = M @ a + B @ v + K @ d - F
            scale = terms.max(axis=0)
            ok = np.isfinite(scale) & (scale > 0)
            if not ok.any():
                return
            _count("fsolve:" + cls.__name__)
            r = float((abs(res)[:, ok].max(axis=0) / scale[ok]).max())
            key = "fsolve-worst:" + cls.__name__
            _REC["calls"][key] = max(_REC["calls"].get(key, 0.0), r)
            if r > 1e-7:
                _viol("ambient-fsolve-residual", {"solver": cls.__name__, "n": int(n),
                                                  "rel": r})

        @functools.wraps(orig)
        def w(self, force, freq, incrb="dva", rf_disp_only=False, **k):
            sol = orig(self, force, freq, incrb, rf_disp_only, **k)
            check(self, force, freq, incrb, rf_disp_only, sol)
            return sol
        cls.fsolve = w
    for cls in (ode.SolveUnc, ode.FreqDirect):
        wrap(cls)


def mon_epq():
    """A (P + Q) = (E - I) B for every getEPQ* return (integral of exp(At) over the
    step, documented split of it into P and Q)."""
    import numpy as np
    from pyyeti import expmint

    def wrap(name):
        orig = getattr(expmint, name)

        @_guard
        def check(A, h, order, B, half, out):
            E, P, Q = out
            A = np.asarray(A)
            n = A.shape[0]
            if B is None:
                Bm = np.eye(n)[:, :n // 2] if half else np.eye(n)
            else:
                Bm = np.asarray(B)
            S = P + Q if order == 1 else P
            lhs = A @ S
            rhs = (E - np.eye(n)) @ Bm
            scale = float(abs(A) .max() * abs(S).max() * n + abs(E).max() + 1.0) * \
                max(float(abs(Bm).max()), 1e-300)
            if not np.isfinite(scale):
                return
            _count("epq:" + name)
            r = float(abs(lhs - rhs).max() / scale)
            _REC["calls"]["epq-worst"] = max(_REC["calls"].get("epq-worst", 0.0), r)
            if r > 1e-9:
                _viol("ambient-epq-identity", {"fn": name, "n": int(n), "h": float(h),
                                               "order": int(order), "rel": r})

        @functools.wraps(orig)
        def w(A, h, order=1, B=None, half=False, *a, **k):
            out = orig(A, h, order, B, half, *a, **k)
            check(A, h, order, B, half, out)
            return out
        setattr(expmint, name, w)
    for name in ("getEPQ1", "getEPQ2", "getEPQ_pow"):
        wrap(name)


def mon_sets():
    """mksetpv: minor-from-major vector has the major set's length and equals the minor
    membership restricted to the major rows; mkdofpv: rows found are the rows asked."""
    import numpy as np
    from pyyeti.nastran import n2p
    orig = n2p.mksetpv

    @_guard
    def check(uset, major, minor, pv):
        _count("mksetpv")
        pM = orig(uset, "p", major)
        pm = orig(uset, "p", minor)
        if np.any(pm & ~pM):
            _viol("ambient-mksetpv-accepted-non-subset", {"major": str(major),
                                                          "minor": str(minor)})
            return
        pv = np.asarray(pv)
        if pv.shape != (int(pM.sum()),) or not np.array_equal(pv, pm[pM]):
            _viol("ambient-mksetpv", {"major": str(major), "minor": str(minor),
                                      "len": int(pv.size), "major_size": int(pM.sum())})

    @functools.wraps(orig)
    def w(uset, major, minor):
        pv = orig(uset, major, minor)
        if not (isinstance(major, str) and major == "p"):
            check(uset, major, minor, pv)
        return pv
    n2p.mksetpv = w

    orig2 = n2p.mkdofpv

    @_guard
    def check2(uset, nasset, out):
        _count("mkdofpv")
        pv, outdof = out
        pv = np.asarray(pv)
        if not hasattr(uset, "columns"):
            idx = np.asarray(uset)[:, :2].astype(np.int64)      # plain [id, dof] array
        elif not isinstance(nasset, str):
            idx = np.array(list(uset.index), dtype=np.int64)
        else:
            sel = orig(uset, "p", nasset)
            idx = np.array(list(uset.index), dtype=np.int64)[sel]
        if pv.size and (pv.max() >= idx.shape[0] or not np.array_equal(
                idx[pv], np.asarray(outdof, dtype=np.int64))):
            _viol("ambient-mkdofpv", {"n": int(pv.size)})

    @functools.wraps(orig2)
    def w2(uset, nasset, dof, *a, **k):
        out = orig2(uset, nasset, dof, *a, **k)
        check2(uset, nasset, out)
        return out
    n2p.mkdofpv = w2


def mon_resample():
    """dsp.resample: ceil(n p / q) samples along the axis; constants stay constant."""
    import math
    import numpy as np
    from pyyeti import dsp
    orig = dsp.resample

    @_guard
    def check(data, p, q, axis, getfir, t, out):
        _count("resample")
        y = out[0] if isinstance(out, tuple) else out
        x = np.asarray(data)
        n = x.shape[axis]
        want = math.ceil(n * int(p) / int(q))
        if np.asarray(y).shape[axis] != want:
            _viol("ambient-resample-length", {"n": int(n), "p": int(p), "q": int(q),
                                              "got": int(np.asarray(y).shape[axis])})

    @functools.wraps(orig)
    def w(data, p, q, *a, **k):
        out = orig(data, p, q, *a, **k)
        names = ["axis", "beta", "pts", "t", "getfir"]
        kw = dict(zip(names, a))
        kw.update(k)
        check(data, p, q, kw.get("axis", -1), kw.get("getfir", False), kw.get("t"), out)
        return out
    dsp.resample = w


def mon_ntfl():
    """frclim.ntfl: TAM = SAM + LAM; F = LAM A (interface force from the load's apparent
    mass and the coupled acceleration)."""
    import numpy as np
    from pyyeti import frclim
    orig = frclim.ntfl

    @_guard
    def check(out):
        _count("ntfl")
        if not np.array_equal(np.asarray(out.TAM), np.asarray(out.SAM) + np.asarray(out.LAM)):
            _viol("ambient-ntfl-tam", {})
        LAM, A, F = np.asarray(out.LAM), np.asarray(out.A), np.asarray(out.F)
        want = np.einsum("ifk,kf->if", LAM, A)
        scale = np.einsum("ifk,kf->if", abs(LAM), abs(A)).max() + 1e-300
        r = float(abs(F - want).max() / scale)
        _REC["calls"]["ntfl-worst"] = max(_REC["calls"].get("ntfl-worst", 0.0), r)
        if r > 1e-10:
            _viol("ambient-ntfl-force", {"rel": r})

    @functools.wraps(orig)
    def w(*a, **k):
        out = orig(*a, **k)
        check(out)
        return out
    frclim.ntfl = w


MONITORS = {"format": mon_format, "rainflow": mon_rainflow, "findap": mon_findap,
            "eom": mon_eom, "extrema": mon_extrema, "fsolve": mon_fsolve, "epq": mon_epq,
            "sets": mon_sets, "resample": mon_resample, "ntfl": mon_ntfl}


# ------------------------------------------------------------------ pytest hooks -------

def pytest_configure(config):
    if os.environ.get("PYYETI_VERIF") != "1":
        return
    for name in os.environ.get("VF_AMBIENT_MONITORS", "").split(","):
        if name in MONITORS:
            MONITORS[name]()
            _REC["calls"].setdefault("installed:" + name, 1)


def pytest_sessionfinish(session, exitstatus):
    out = os.environ.get("VF_AMBIENT_OUT")
    if out and os.environ.get("PYYETI_VERIF") == "1":
        with open(out, "w") as f:
            json.dump(_REC, f)


# ------------------------------------------------------------------ shard side --------

def run(sh, spec):
    """Run the repository's tests with monitors on; fold observations into ``sh``."""
    from vf import core
    out = os.path.join(os.getcwd(), "ambient.json")
    tests = [os.path.join(core.REPO, "pyyeti", "tests", t) for t in spec["tests"]]
    env = {**os.environ, "PYYETI_VERIF": "1", "VF_AMBIENT_OUT": out,
           "VF_AMBIENT_MONITORS": ",".join(spec["monitors"]),
           "PYTHONPATH": core.REPO + os.pathsep + core.VERIF}
    subprocess.run([sys.executable, "-m", "pytest", "-q", "-p", "no:cacheprovider",
                    "-p", "vf.ambient", "--timeout=900", "-x", "--co", "-q"] + tests,
                   cwd=core.REPO, env=env, capture_output=True)
    p = subprocess.run([sys.executable, "-m", "pytest", "-q", "-p", "no:cacheprovider",
                        "-p", "vf.ambient", "--timeout=900"] + tests,
                       cwd=core.REPO, env=env, capture_output=True, text=True)
    if not os.path.exists(out):
        sh.count("ambient:no-output")
        return
    rec = json.load(open(out))
    for k, v in rec["calls"].items():
        if isinstance(v, (int,)):
            sh.count("ambient:" + k, v)
        else:
            sh.margin["ambient:" + k] = max(sh.margin.get("ambient:" + k, 0), float(v))
    for v in rec["violations"]:
        sh.violation(v["kind"], {"ambient": spec}, v["detail"], {"ambient": True})
    for e in rec.get("monitor_errors", [])[:5]:
        sh.count("ambient:monitor-error")
