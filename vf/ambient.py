"""Ambient monitors on the repository's own test-suite (DESIGN 2.8).

A pytest plugin (``-p vf.ambient``; active only with PYYETI_VERIF=1) that attaches cheap
invariant monitors to the real functions while the repository's tests run.  Monitors
never raise into the test: they record to a list that is dumped to the JSON file named by
``VF_AMBIENT_OUT`` when the session ends.  It is an *extra workload* for the thorough tier
(the tests call the functions with inputs our generators did not invent), never the
deciding one.

``run(sh, spec)`` is what a shard calls: it runs pytest in a subprocess on the listed test
files with the listed monitors and folds the observations into the shard collector.
"""
import functools
import json
import os
import subprocess
import sys

_REC = {"calls": {}, "violations": []}
_ON = [True]


def _count(name):
    _REC["calls"][name] = _REC["calls"].get(name, 0) + 1


def _viol(kind, detail):
    if len(_REC["violations"]) < 100:
        _REC["violations"].append({"kind": kind, "detail": detail})


def _guard(fn):
    """Run a monitor body; a crash of the monitor itself is recorded, never raised."""
    @functools.wraps(fn)
    def inner(*a, **k):
        if not _ON[0]:
            return
        _ON[0] = False      # monitors must not observe calls made by monitors
        try:
            fn(*a, **k)
        except Exception as e:  # pragma: no cover
            _REC["calls"]["monitor-error:" + fn.__name__] = \
                _REC["calls"].get("monitor-error:" + fn.__name__, 0) + 1
            _REC.setdefault("monitor_errors", []).append(repr(e)[:300])
        finally:
            _ON[0] = True
    return inner


# ------------------------------------------------------------------ monitors ----------

def mon_format():
    from pyyeti.nastran import bulk

    def wrap(name, width):
        orig = getattr(bulk, name)

        @_guard
        def check(value, out):
            _count("format:" + name)
            if not isinstance(out, str) or len(out) != width:
                _viol("ambient-format-width", {"fn": name, "value": repr(value),
                                               "out": repr(out)})
                return
            back = bulk.nas_sscanf(out)
            v = float(value)
            if not isinstance(back, float) and not isinstance(back, int):
                _viol("ambient-format-unparsed", {"fn": name, "value": repr(value),
                                                  "out": out})
            elif v == v and abs(v) < 1e300 and abs(back - v) > 1e-3 * abs(v) + 1e-300:
                _viol("ambient-format-value", {"fn": name, "value": repr(value),
                                               "out": out, "back": back})

        @functools.wraps(orig)
        def w(value):
            out = orig(value)
            check(value, out)
            return out
        setattr(bulk, name, w)
    for name, width in (("format_float8", 8), ("format_float16", 16),
                        ("format_double16", 16)):
        if hasattr(bulk, name):
            wrap(name, width)


def mon_rainflow():
    import numpy as np
    from pyyeti import cyclecount
    mods = [cyclecount.rain]
    try:
        import pyyeti.rainflow.py_rain as pr
        if pr not in mods:
            mods.append(pr)
    except Exception:
        pass

    @_guard
    def check(peaks, getoffsets, out):
        _count("rainflow")
        x = np.asarray(peaks, dtype=float).ravel()
        rf = out[0] if getoffsets else out
        rf = np.asarray(rf, float)
        if 2 * rf[:, 2].sum() != x.size - 1:
            _viol("ambient-rainflow-conservation", {"L": int(x.size),
                                                    "2sum": float(2 * rf[:, 2].sum())})
        if getoffsets:
            os_ = np.asarray(out[1]).astype(int)
            a, b = x[os_[:, 0]], x[os_[:, 1]]
            if not (np.array_equal(rf[:, 0], abs(a - b) / 2)
                    and np.array_equal(rf[:, 1], (a + b) / 2)):
                _viol("ambient-rainflow-offsets", {"L": int(x.size)})

    for m in mods:
        orig = m.rainflow

        def w(peaks, getoffsets=False, _orig=orig):
            out = _orig(peaks, getoffsets)
            check(peaks, getoffsets, out)
            return out
        try:
            m.rainflow = w
        except Exception:
            pass


def mon_findap():
    import numpy as np
    from pyyeti import cyclecount
    orig = cyclecount.findap

    @_guard
    def check(y, pv):
        _count("findap")
        y = np.asarray(y).ravel()
        pv = np.asarray(pv)
        if pv.shape != y.shape or not pv[0]:
            _viol("ambient-findap-start", {"n": int(y.size)})
            return
        s = y[pv]
        if s.size > 2:
            d = np.diff(s)
            if np.any(d == 0) or np.any(d[1:] * d[:-1] >= 0):
                _viol("ambient-findap-alternation", {"n": int(y.size),
                                                     "sel": s[:12].tolist()})

    @functools.wraps(orig)
    def w(y, tol=1e-6):
        pv = orig(y, tol)
        check(y, pv)
        return pv
    cyclecount.findap = w


def mon_eom():
    """Equation-of-motion residual of every tsolve return (SolveUnc, SolveExp2)."""
    import numpy as np
    from pyyeti import ode

    def full(x, n):
        x = np.asarray(x)
        return np.diag(x) if x.ndim == 1 else x

    def wrap(cls):
        orig = cls.tsolve

        @_guard
        def check(self, force, sol):
            if getattr(self, "pre_eig", False) or getattr(self, "cdforces", False):
                return
            n = self.n
            F = np.atleast_2d(force)
            if F.shape != sol.d.shape:
                return
            K = full(self.k_orig, n)
            B = full(self.b_orig, n)
            M = np.eye(n) if self.m_orig is None else full(self.m_orig, n)
            nonrf = np.asarray(self.nonrf) if not isinstance(self.nonrf, slice) \
                else np.arange(n)[self.nonrf]
            if nonrf.size == 0:
                return
            # the solvers partition the residual-flexibility rows off (documented
            # domain: rf block uncoupled from the rest), so judge the non-rf block
            nn = np.ix_(nonrf, nonrf)
            M, B, K = M[nn], B[nn], K[nn]
            a, v, d, F = sol.a[nonrf], sol.v[nonrf], sol.d[nonrf], F[nonrf]
            terms = abs(M) @ abs(a) + abs(B) @ abs(v) + abs(K) @ abs(d) + abs(F)
            res = M @ a + B @ v + K @ d - F
            nonrf = slice(None)
            scale = terms.max()
            if not np.isfinite(scale) or scale == 0:
                return
            _count("eom:" + cls.__name__)
            r = abs(res[nonrf]).max() / scale
            _REC["calls"]["eom-worst"] = max(_REC["calls"].get("eom-worst", 0.0),
                                             float(r))
            if r > 1e-8:
                _viol("ambient-eom-residual", {"solver": cls.__name__, "n": int(n),
                                               "rel": float(r)})

        @functools.wraps(orig)
        def w(self, force, *a, **k):
            sol = orig(self, force, *a, **k)
            check(self, force, sol)
            return sol
        cls.tsolve = w
    for cls in (ode.SolveUnc, ode.SolveExp2):
        wrap(cls)


def mon_extrema():
    """Running extrema never move the wrong way (two-column form)."""
    import numpy as np
    from pyyeti.cla import _utilities, dr_results
    import pyyeti.cla as cla
    orig = _utilities.extrema

    @_guard
    def check(before, curext, mm):
        _count("extrema")
        if before is None or curext.ext is None:
            return
        with np.errstate(invalid="ignore"):
            if mm.ext.shape[1] == 2:
                bad = (curext.ext[:, 0] < before[:, 0]) | (curext.ext[:, 1] > before[:, 1])
            else:
                bad = (abs(curext.ext[:, 0]) < abs(before[:, 0])) | \
                      (abs(curext.ext[:, 1]) > abs(before[:, 1]))
        if np.any(bad):
            _viol("ambient-extrema-monotone", {"rows": int(bad.sum())})

    @functools.wraps(orig)
    def w(curext, mm, *a, **k):
        try:  # never raise before the real call
            ext = getattr(curext, "ext", None)
            before = None if ext is None else np.array(ext, copy=True)
        except Exception:
            before = None
        out = orig(curext, mm, *a, **k)
        check(before, curext, mm)
        return out
    for m in (_utilities, dr_results, cla):
        if getattr(m, "extrema", None) is orig:
            m.extrema = w


MONITORS = {"format": mon_format, "rainflow": mon_rainflow, "findap": mon_findap,
            "eom": mon_eom, "extrema": mon_extrema}


# ------------------------------------------------------------------ pytest hooks -------

def pytest_configure(config):
    if os.environ.get("PYYETI_VERIF") != "1":
        return
    for name in os.environ.get("VF_AMBIENT_MONITORS", "").split(","):
        if name in MONITORS:
            MONITORS[name]()
            _REC["calls"].setdefault("installed:" + name, 1)


def pytest_sessionfinish(session, exitstatus):
    out = os.environ.get("VF_AMBIENT_OUT")
    if out and os.environ.get("PYYETI_VERIF") == "1":
        with open(out, "w") as f:
            json.dump(_REC, f)


# ------------------------------------------------------------------ shard side --------

def run(sh, spec):
    """Run the repository's tests with monitors on; fold observations into ``sh``."""
    from vf import core
    out = os.path.join(os.getcwd(), "ambient.json")
    tests = [os.path.join(core.REPO, "pyyeti", "tests", t) for t in spec["tests"]]
    env = {**os.environ, "PYYETI_VERIF": "1", "VF_AMBIENT_OUT": out,
           "VF_AMBIENT_MONITORS": ",".join(spec["monitors"]),
           "PYTHONPATH": core.REPO + os.pathsep + core.VERIF}
    subprocess.run([sys.executable, "-m", "pytest", "-q", "-p", "no:cacheprovider",
                    "-p", "vf.ambient", "--timeout=900", "-x", "--co", "-q"] + tests,
                   cwd=core.REPO, env=env, capture_output=True)
    p = subprocess.run([sys.executable, "-m", "pytest", "-q", "-p", "no:cacheprovider",
                        "-p", "vf.ambient", "--timeout=900"] + tests,
                       cwd=core.REPO, env=env, capture_output=True, text=True)
    if not os.path.exists(out):
        sh.count("ambient:no-output")
        return
    rec = json.load(open(out))
    for k, v in rec["calls"].items():
        if isinstance(v, (int,)):
            sh.count("ambient:" + k, v)
        else:
            sh.margin["ambient:" + k] = max(sh.margin.get("ambient:" + k, 0), float(v))
    for v in rec["violations"]:
        sh.violation(v["kind"], {"ambient": spec}, v["detail"], {"ambient": True})
    for e in rec.get("monitor_errors", [])[:5]:
        sh.count("ambient:monitor-error")
