"""Shared plumbing for the runtime-monitoring checks (see DESIGN.md section 2).

Everything here is stdlib + numpy.  Nothing imports pyyeti at module import time:
the repository under test is put on ``sys.path`` explicitly by :func:`use_repo`
(``VF_REPO``, default ``/repo``) so that the selftest can point the same checks at a
patched scratch copy.
"""
import fcntl
import hashlib
import json
import os
import subprocess
import sys
import time

VERIF = os.path.dirname(os.path.dirname(os.path.abspath(__file__)))
REPO = os.environ.get("VF_REPO", "/repo")
DEPS = os.path.join(VERIF, ".deps")
BUILD = os.path.join(VERIF, ".build")
EVIDENCE = os.path.join(VERIF, "evidence")
REPLAY = os.path.join(VERIF, "replay")
WHEELS = "/opt/veriftools/wheels"
PY = sys.executable

EXIT_HELD, EXIT_VIOLATION, EXIT_INCONCLUSIVE = 0, 1, 2


def ensure_deps():
    """Install mpmath + jsonschema into /verif/.deps from the offline wheelhouse.

    Idempotent and lock-protected: a fresh restore has only committed files, so every
    registered command calls this first.
    """
    marker = os.path.join(DEPS, ".ok")
    if not os.path.exists(marker):
        os.makedirs(DEPS, exist_ok=True)
        with open(os.path.join(VERIF, ".deps.lock"), "w") as lk:
            fcntl.flock(lk, fcntl.LOCK_EX)
            if not os.path.exists(marker):
                subprocess.run(
                    [PY, "-m", "pip", "install", "--quiet", "--no-index",
                     "--find-links", WHEELS, "--target", DEPS, "--upgrade",
                     "mpmath", "jsonschema"],
                    check=True, stdout=subprocess.DEVNULL, stderr=subprocess.DEVNULL,
                    env={**os.environ, "PIP_NO_INDEX": "1",
                         "PIP_DISABLE_PIP_VERSION_CHECK": "1"})
                open(marker, "w").write("ok\n")
    if DEPS not in sys.path:
        sys.path.append(DEPS)


def use_repo():
    """Make ``import pyyeti`` resolve to the tree under test."""
    if sys.path[0] != REPO:
        sys.path.insert(0, REPO)
    import pyyeti  # noqa
    got = os.path.dirname(os.path.dirname(os.path.abspath(pyyeti.__file__)))
    if os.path.realpath(got) != os.path.realpath(REPO):
        raise RuntimeError(f"pyyeti imported from {got}, expected {REPO}")


def rng(seed, *key):
    """Philox generator derived from (seed, key...) -- reproducible from the descriptor."""
    import numpy as np
    h = hashlib.sha256(repr((int(seed),) + tuple(key)).encode()).digest()
    k = int.from_bytes(h[:8], "little")
    return np.random.Generator(np.random.Philox(key=k))


def digest(obj):
    return hashlib.sha1(json.dumps(obj, sort_keys=True, default=str).encode()
                        ).hexdigest()[:16]


def jsonable(x):
    import numpy as np
    if isinstance(x, dict):
        return {str(k): jsonable(v) for k, v in x.items()}
    if isinstance(x, (list, tuple, set, frozenset)):
        return [jsonable(v) for v in x]
    if isinstance(x, np.ndarray):
        if x.size > 64:
            return {"ndarray": list(x.shape), "dtype": str(x.dtype),
                    "head": jsonable(x.ravel()[:16])}
        return jsonable(x.tolist())
    if isinstance(x, (np.integer,)):
        return int(x)
    if isinstance(x, (np.floating,)):
        return jsonable(float(x))
    if isinstance(x, (np.bool_,)):
        return bool(x)
    if isinstance(x, complex) or isinstance(x, np.complexfloating):
        return {"re": jsonable(float(x.real)), "im": jsonable(float(x.imag))}
    if isinstance(x, float):
        if x != x or x in (float("inf"), float("-inf")):
            return repr(x)
        return x
    if isinstance(x, (int, str, bool)) or x is None:
        return x
    if isinstance(x, bytes):
        return x.hex()
    return repr(x)


class Shard:
    """Collector handed to a property's ``run_shard``: cases, counters, violations."""

    def __init__(self, prop, tier, seed, index):
        self.prop, self.tier, self.seed, self.index = prop, tier, seed, index
        self.evaluations = 0
        self.nontrivial = set()
        self.counters = {}
        self.violations = []
        self.samples = []
        self.margin = {}
        self.refused = 0
        self._perkind = {}
        self.t0 = time.time()

    # -- bookkeeping -------------------------------------------------------------
    def case(self, descriptor, nontrivial=True, sample=None):
        """Register one executed case.  ``descriptor`` identifies it for distinctness."""
        self.evaluations += 1
        if nontrivial:
            self.nontrivial.add(digest(descriptor))
        if len(self.samples) < 3 and (sample is not None or descriptor is not None):
            self.samples.append(jsonable(sample if sample is not None else descriptor))

    def count(self, key, n=1):
        self.counters[key] = self.counters.get(key, 0) + n

    def worst(self, key, ratio):
        """Track the worst error/tolerance ratio seen for a monitor (margin report)."""
        try:
            r = float(ratio)
        except Exception:
            return
        if r != r:
            r = float("inf")
        if r > self.margin.get(key, -1.0):
            self.margin[key] = r

    def violation(self, kind, case, detail, tags=None):
        """Record a refuting observation.

        kind   : which oracle/monitor fired (stable short string)
        case   : JSON-able descriptor sufficient to regenerate the input
        detail : what was observed versus expected
        tags   : mechanism facts about the case (used by known-finding predicates)
        """
        self.count("violation:" + kind)
        # keep at most 40 records per monitor kind (and 1500 in all): a frequent known
        # mechanism must never crowd a different failure out of the list
        self._perkind[kind] = self._perkind.get(kind, 0) + 1
        if self._perkind[kind] <= 40 and len(self.violations) < 1500:
            self.violations.append({"kind": kind, "case": jsonable(case),
                                    "detail": jsonable(detail),
                                    "tags": jsonable(tags or {})})

    def check_close(self, kind, got, want, tol, case, tags=None, scale=None):
        """|got-want| <= tol (elementwise; tol array or scalar).  NaN in got fails."""
        import numpy as np
        got = np.asarray(got)
        want = np.asarray(want)
        self.count("mon:" + kind)
        if got.shape != want.shape:
            self.violation(kind, case, {"shape_got": got.shape,
                                        "shape_want": want.shape}, tags)
            return False
        if got.size == 0:
            return True
        err = np.abs(got - want)
        tol = np.broadcast_to(np.asarray(tol, dtype=float), err.shape)
        bad = ~(err <= tol)
        with np.errstate(divide="ignore", invalid="ignore"):
            ratio = np.where(tol > 0, err / tol, np.where(err == 0, 0.0, np.inf))
        ratio = np.where(np.isnan(ratio), np.inf, ratio)
        self.worst(kind, ratio.max())
        if bad.any():
            i = np.unravel_index(np.argmax(ratio), ratio.shape)
            self.violation(kind, case, {
                "index": [int(j) for j in i], "got": got[i], "want": want[i],
                "err": float(err[i]) if err[i] == err[i] else "nan",
                "tol": float(tol[i]), "nbad": int(bad.sum()), "size": int(bad.size)},
                tags)
            return False
        return True

    def check_equal(self, kind, got, want, case, tags=None):
        """Exact equality of discrete outputs / bit patterns."""
        import numpy as np
        self.count("mon:" + kind)
        ok = True
        try:
            if isinstance(got, np.ndarray) or isinstance(want, np.ndarray):
                g, w = np.asarray(got), np.asarray(want)
                ok = g.shape == w.shape and (
                    g.tobytes() == w.tobytes() if g.dtype == w.dtype
                    else bool(np.array_equal(g, w)))
            else:
                ok = got == want
        except Exception as e:  # comparison itself failed
            ok = False
            got = f"{got!r} ({e})"
        if not ok:
            self.violation(kind, case, {"got": got, "want": want}, tags)
        return ok

    def result(self):
        return {"prop": self.prop, "tier": self.tier, "seed": self.seed,
                "index": self.index, "evaluations": self.evaluations,
                "nontrivial": sorted(self.nontrivial), "counters": self.counters,
                "violations": self.violations, "samples": self.samples,
                "margin": self.margin, "refused": self.refused,
                "wall_s": time.time() - self.t0}


# -- known findings -------------------------------------------------------------------

def load_findings(prop):
    """Open findings for `prop`: known_findings.json plus findings/<ID>.json.

    Entries under "fixed" suppress nothing and are never loaded.
    """
    out = []
    for path in (os.path.join(VERIF, "known_findings.json"),
                 os.path.join(VERIF, "findings", prop + ".json")):
        if os.path.exists(path):
            data = json.load(open(path))
            out += [f for f in data.get("findings", []) if f["property"] == prop]
    return out


_SAFE = {"abs": abs, "min": min, "max": max, "len": len, "any": any, "all": all,
         "True": True, "False": False, "None": None, "str": str, "float": float,
         "int": int}


class _NS(dict):
    def __missing__(self, k):
        return None


def match_finding(viol, findings):
    """Return the finding entry whose mechanism predicate AND symptom match, or None."""
    ns = _NS(viol.get("tags") or {})
    ns["kind"] = viol["kind"]
    ns["detail"] = viol.get("detail")
    for f in findings:
        try:
            if f.get("kinds") and viol["kind"] not in f["kinds"]:
                continue
            if eval(f["when"], {"__builtins__": {}}, _NS({**_SAFE, **ns})):
                return f
        except Exception:
            continue
    return None
