"""Run one shard of one property in its own interpreter (DESIGN 2.2)."""
import importlib
import json
import os
import shutil
import sys
import tempfile
import traceback
import warnings


def main(argv):
    prop, tier, seed, index, pfile, out = argv
    from vf import core
    core.ensure_deps()
    core.use_repo()
    warnings.simplefilter("ignore")
    mod = importlib.import_module("vf.props." + prop.lower())
    params = json.load(open(pfile))
    sh = core.Shard(prop, tier, int(seed), int(index))
    tmp = tempfile.mkdtemp(prefix=f"vf_{prop}_")
    sh.tmp = tmp
    cwd = os.getcwd()
    try:
        os.chdir(tmp)
        if "_ambient" in params:
            from vf import ambient
            ambient.run(sh, params["_ambient"])
        else:
            mod.run_shard(sh, params)
        res = sh.result()
    except BaseException:
        res = sh.result()
        res["crash"] = traceback.format_exc()
    finally:
        os.chdir(cwd)
        shutil.rmtree(tmp, ignore_errors=True)
    with open(out, "w") as f:
        json.dump(res, f)
    return 0


if __name__ == "__main__":
    sys.exit(main(sys.argv[1:]))
