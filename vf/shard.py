"""Run one shard of one property in its own interpreter (DESIGN 2.2)."""
import importlib
import json
import os
import shutil
import sys
import tempfile
import traceback
import warnings


def main(argv):
    prop, tier, seed, index, pfile, out = argv
    from vf import core
    core.ensure_deps()
    core.use_repo()
    warnings.simplefilter("ignore")
    mod = importlib.import_module("vf.props." + prop.lower())
    params = json.load(open(pfile))
    sh = core.Shard(prop, tier, int(seed), int(index))
    tmp = tempfile.mkdtemp(prefix=f"vf_{prop}_")
    sh.tmp = tmp
    cwd = os.getcwd()
    entered = None
    if os.environ.get("VF_COVER") == "1" and hasattr(sys, "monitoring"):
        # function-level coverage of the repository under test (diagnostic only: which
        # functions of the anchor files a workload ever enters; tools/anchor_coverage.py)
        entered = set()
        mon = sys.monitoring
        tool = mon.COVERAGE_ID
        mon.use_tool_id(tool, "vf-cover")
        root = os.path.join(core.REPO, "pyyeti") + os.sep

        def on_start(code, offset):
            fn = code.co_filename
            if fn.startswith(root):
                entered.add((fn[len(root):], code.co_qualname, code.co_firstlineno))
            return mon.DISABLE
        mon.register_callback(tool, mon.events.PY_START, on_start)
        mon.set_events(tool, mon.events.PY_START)
    argseen = None
    if os.environ.get("VF_COVER") == "2" and hasattr(sys, "monitoring"):
        # argument-class coverage (diagnostic only; tools/option_coverage.py): for every
        # function of the repository entered, which classes of values each parameter saw
        argseen = {}
        mon = sys.monitoring
        tool = mon.COVERAGE_ID
        mon.use_tool_id(tool, "vf-args")
        root = os.path.join(core.REPO, "pyyeti") + os.sep

        def _cls(v):
            if v is None or isinstance(v, (bool, str)):
                return repr(v)[:40]
            if isinstance(v, (int, float)):
                return repr(v) if abs(v) < 1000 and v == int(v) else type(v).__name__
            sh_ = getattr(v, "shape", None)
            dt = getattr(v, "dtype", None)
            if sh_ is not None and dt is not None:
                return "%s%dd:%s" % (type(v).__name__, len(sh_), getattr(dt, "kind", "?"))
            if isinstance(v, (list, tuple, dict, set)):
                return "%s[%s]" % (type(v).__name__, "0" if not len(v) else "n")
            if callable(v):
                return "callable"
            return type(v).__name__

        def on_start2(code, offset):
            fn = code.co_filename
            if not fn.startswith(root) or os.sep + "tests" + os.sep in fn:
                return mon.DISABLE
            fr = sys._getframe(1)
            if fr.f_code is not code:
                return None
            nargs = code.co_argcount + code.co_kwonlyargcount
            key = fn[len(root):] + "::" + code.co_qualname
            d = argseen.setdefault(key, {})
            loc = fr.f_locals
            for nm in code.co_varnames[:nargs]:
                if nm in loc:
                    st = d.setdefault(nm, set())
                    if len(st) < 16:
                        st.add(_cls(loc[nm]))
            return None
        mon.register_callback(tool, mon.events.PY_START, on_start2)
        mon.set_events(tool, mon.events.PY_START)
    try:
        os.chdir(tmp)
        if "_ambient" in params:
            from vf import ambient
            ambient.run(sh, params["_ambient"])
        else:
            mod.run_shard(sh, params)
        res = sh.result()
    except BaseException:
        res = sh.result()
        res["crash"] = traceback.format_exc()
    finally:
        os.chdir(cwd)
        shutil.rmtree(tmp, ignore_errors=True)
    if entered is not None:
        res["entered"] = sorted(entered)
    if argseen is not None:
        res["argseen"] = {k: {a: sorted(v) for a, v in d.items()} for k, d in argseen.items()}
    with open(out, "w") as f:
        json.dump(res, f)
    return 0


if __name__ == "__main__":
    sys.exit(main(sys.argv[1:]))
