"""Regenerates /verif/MANIFEST.json from the table below (python -m vf.manifest)."""
import json
import os

from vf import core

PY = "/venv/bin/python"

# id -> (technique, level text, level note, design ref)
CHECKS = {
    "C05": (
        "compiler sanitizers (ASan+UBSan on c_rain.c) + three-way differential monitor "
        "against an ASTM E1049 transcription + invariant/metamorphic/refcount monitors",
        "Every sequence of an exhaustive small-alphabet family and of seeded random/"
        "adversarial families is executed on four builds of c_rain.c compiled from the "
        "working tree (both macro variants; gcc -O2 and clang ASan+UBSan with "
        "halt_on_error), on py_rain and on py_rain's numba-decorated definition under "
        "an identity stub; tables and offsets must be byte-identical to an independent "
        "ASTM transcription; count conservation, amp/mean-from-offsets, largest range, "
        "negate/shift/scale relations, reference counts and RSS plateau are monitored. "
        "Held on the executions observed; not a proof.",
        "Trusts the ASTM transcription (validated on the standard's example), clang 14 "
        "ASan/UBSan, and that numba (absent here) would compile the same source "
        "faithfully.", "5/C05"),
    "C10": (
        "predicate monitors on findap masks (default path and numba-branch source under an "
        "identity stub), interval-membership reference model for getbins/binify/sigcount, "
        "independent exact SDOF + closed-form Rayleigh damage oracle for fdepsd invariants",
        "Seeded signal families aimed at the selection rule (coarse random walks, plateaus, "
        "sub-tolerance drifts, first-change-is-last, length 1/2/3, huge offsets; four "
        "tolerances) are run through both findap sources and judged by start/alternation/"
        "extreme predicates and mask equality; cycle tables x bin specifications (scalar, "
        "covering, touching, not covering; right both ways; near-degenerate ranges) are "
        "judged against a pure-Python interval-membership model and count conservation; "
        "fdepsd is run over its option product and judged on monotone counts, total count "
        "recomputed from independently computed oscillator responses, amplitude <= SRS, "
        "G2 >= G1, damage indicators, test-variance relation and k^2 scaling.  Mandatory "
        "coverage cells per family/option.  Held on the executions observed.",
        "Trusts the oracle's reading of the documented findap/getbins rules and the "
        "Rayleigh damage closed forms; numba JIT behaviour is not observable (numba "
        "absent): the numba-branch source is executed as plain Python.", "5/C10"),
}

NOT_YET = {}


def build():
    checks = []
    for pid, (tech, text, note, ref) in sorted(CHECKS.items()):
        checks.append({
            "property_id": pid,
            "quick_cmd": f"{PY} -m vf.cli {pid} --tier quick",
            "thorough_cmd": f"{PY} -m vf.cli {pid} --tier thorough",
            "evidence_file": f"/verif/evidence/{pid}.json",
            "replay_cmd_template": f"{PY} -m vf.cli {pid} --replay {{path}}",
            "engine": "vf",
            "level_claimed": {"category": "exploration", "text": text,
                              "design_ref": "DESIGN.md section " + ref},
            "level_note": note,
            "technique": "runtime monitoring: " + tech,
        })
    props = [json.loads(l)["id"] for l in open(os.path.join(core.VERIF,
                                                          "properties.jsonl"))]
    na = [{"property_id": p,
           "reason": NOT_YET.get(p, "check not built yet in this session; the property "
                                    "is decidable by runtime monitoring (see DESIGN.md "
                                    "section 5) and will be claimed once its monitor "
                                    "is silent on the unchanged tree")}
          for p in props if p not in CHECKS]
    man = {
        "version": 1,
        "setup_cmd": f"{PY} -c \"import sys; sys.path.insert(0,'/verif'); "
                     "from vf import core; core.ensure_deps()\"",
        "hooks": {
            "guard": "PYYETI_VERIF",
            "enable": "no source hooks: all instrumentation is applied from the harness "
                      "(attribute wrapping, fork-inherited worker wrappers, numba "
                      "identity stub, recompiling c_rain.c with sanitizers); "
                      "PYYETI_VERIF=1 only switches the harness-side ambient pytest "
                      "plugin on",
            "baseline_off_cmd": "cd /repo && /venv/bin/python -m pytest -ra -q -p "
                                "no:cacheprovider --timeout=900 "
                                "--continue-on-collection-errors",
            "source_commits": [],
            "add_only": True,
        },
        "engines": [{"name": "vf", "path": "/verif/vf",
                     "serves_properties": sorted(CHECKS),
                     "kind_free_text": "runtime-monitoring framework: seeded workload "
                                       "generators, per-shard subprocesses, independent "
                                       "oracles, known-findings classifier, evidence "
                                       "writer"}],
        "checks": checks,
        "notes": "All checks: exit 0 held / 1 VIOLATION / 2 inconclusive; honour "
                 "VERIF_SEED and VERIF_TIER; rebuild from /repo's working tree "
                 "(fresh interpreters; c_rain.c recompiled).  VF_REPO redirects the "
                 "checks to a scratch copy (used only by vf.selftest).",
        "not_applicable": na,
    }
    path = os.path.join(core.VERIF, "MANIFEST.json")
    json.dump(man, open(path, "w"), indent=1)
    try:
        core.ensure_deps()
        import jsonschema
        jsonschema.validate(man, json.load(open("/root/.vp/MANIFEST.schema.json")))
        print("MANIFEST.json valid;", len(checks), "checks,", len(na), "not claimed")
    except ImportError:
        print("written (jsonschema unavailable)")


if __name__ == "__main__":
    build()
