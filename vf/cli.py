"""``python -m vf.cli <ID> --tier quick|thorough [--replay file]``

Exit 0 = held on everything explored (known findings are printed, not alarmed);
exit 1 = ``VIOLATION property=<id> replay=<path>``; exit 2 = inconclusive.
"""
import argparse
import concurrent.futures as cf
import importlib
import json
import os
import subprocess
import sys
import tempfile
import time

from vf import core

ENV = {"PYTHONHASHSEED": "0", "OPENBLAS_NUM_THREADS": "1", "OMP_NUM_THREADS": "1",
       "MKL_NUM_THREADS": "1", "NUMEXPR_NUM_THREADS": "1", "MPLBACKEND": "Agg"}


def run_one(prop, tier, seed, index, params, workdir, timeout):
    pfile = os.path.join(workdir, f"p{index}.json")
    out = os.path.join(workdir, f"o{index}.json")
    json.dump(params, open(pfile, "w"))
    env = {**os.environ, **ENV}
    env["PYTHONPATH"] = core.VERIF + os.pathsep + env.get("PYTHONPATH", "")
    env.update(params.get("_env", {}))
    cmd = [core.PY, "-m", "vf.shard", prop, tier, str(seed), str(index), pfile, out]
    t0 = time.time()
    try:
        p = subprocess.run(cmd, cwd=core.VERIF, env=env, timeout=timeout,
                           stdout=subprocess.PIPE, stderr=subprocess.PIPE)
        rc, err = p.returncode, p.stderr.decode(errors="replace")[-100000:]
    except subprocess.TimeoutExpired:
        rc, err = "timeout", ""
    res = None
    if os.path.exists(out):
        try:
            res = json.load(open(out))
        except Exception:
            res = None
    return {"index": index, "params": params, "rc": rc, "stderr": err, "res": res,
            "wall_s": time.time() - t0}


def aggregate(mod, prop, tier, seed, outs):
    agg = {"evaluations": 0, "nontrivial": set(), "counters": {}, "violations": [],
           "samples": [], "margin": {}, "refused": 0, "inconclusive": [],
           "shards": len(outs)}
    for o in outs:
        r = o["res"]
        if r is None or o["rc"] != 0 or "crash" in (r or {}):
            why = (r or {}).get("crash") or o["stderr"] or ""
            hook = getattr(mod, "on_shard_death", None)
            if hook is not None:
                v = hook(o)
                if v is not None:
                    v["shard"] = o["params"]
                    agg["violations"].append(v)
                    if r is None:
                        continue
            else:
                agg["inconclusive"].append(
                    f"shard {o['index']} rc={o['rc']}: {why[-1500:]}")
            if r is None:
                continue
        agg["evaluations"] += r["evaluations"]
        agg["nontrivial"].update(r["nontrivial"])
        agg["refused"] += r.get("refused", 0)
        for k, v in r["counters"].items():
            agg["counters"][k] = agg["counters"].get(k, 0) + v
        for k, v in r["margin"].items():
            agg["margin"][k] = max(agg["margin"].get(k, -1), v)
        for v in r["violations"]:
            v["shard"] = o["params"]
            agg["violations"].append(v)
        if len(agg["samples"]) < 4:
            agg["samples"].extend(r["samples"][:2])
    return agg


def main(argv=None):
    ap = argparse.ArgumentParser()
    ap.add_argument("prop")
    ap.add_argument("--tier", default=os.environ.get("VERIF_TIER", "quick"),
                    choices=["quick", "thorough"])
    ap.add_argument("--seed", type=int,
                    default=int(os.environ.get("VERIF_SEED", "0") or 0))
    ap.add_argument("--replay")
    ap.add_argument("--jobs", type=int, default=int(os.environ.get("VF_JOBS", "16")))
    ap.add_argument("--no-evidence", action="store_true")
    ap.add_argument("--show-known", type=int, default=0,
                    help="print this many sample observations per known finding")
    a = ap.parse_args(argv)
    prop = a.prop.upper()
    t0 = time.time()
    core.ensure_deps()
    mod = importlib.import_module("vf.props." + prop.lower())

    if a.replay:
        rp = json.load(open(a.replay))
        plist = [rp["shard"]]
        a.tier, a.seed = rp.get("tier", a.tier), rp.get("seed", a.seed)
    else:
        plist = mod.shards(a.tier, a.seed)
        amb = getattr(mod, "AMBIENT", None)
        if amb and (a.tier == "thorough" or amb.get("quick")):
            plist.append({"_ambient": amb})
    timeout = getattr(mod, "TIMEOUT", {}).get(a.tier, 3600)
    with tempfile.TemporaryDirectory(prefix=f"vfrun_{prop}_") as wd:
        if hasattr(mod, "prepare"):
            mod.prepare(a.tier, a.seed)
        with cf.ThreadPoolExecutor(max_workers=a.jobs) as ex:
            futs = [ex.submit(run_one, prop, a.tier, a.seed, i, p, wd, timeout)
                    for i, p in enumerate(plist)]
            outs = [f.result() for f in futs]
    agg = aggregate(mod, prop, a.tier, a.seed, outs)
    if hasattr(mod, "finalize"):
        agg["inconclusive"].extend(mod.finalize(agg, a.tier) or [])

    # -- classify violations against the committed known-findings file -------------
    findings = core.load_findings(prop)
    known, fresh = {}, []
    for v in agg["violations"]:
        f = core.match_finding(v, findings)
        if f is None:
            fresh.append(v)
        else:
            known.setdefault(f["id"], [f, 0])[1] += 1
            if a.show_known and known[f["id"]][1] <= a.show_known:
                print("  known-sample", f["id"], json.dumps(
                    {"kind": v["kind"], "case": v["case"], "detail": v["detail"],
                     "tags": v.get("tags")})[:1200])
    for fid, (f, n) in sorted(known.items()):
        print(f"KNOWN-FINDING: property={prop} {fid}: {f['what']} "
              f"[{n} observation(s) this run]")

    nn = len(agg["nontrivial"])
    minimum = getattr(mod, "MIN_NONTRIVIAL", {}).get(a.tier, 2)
    if not a.replay and nn < minimum:
        agg["inconclusive"].append(f"only {nn} distinct non-trivial cases "
                                   f"(< {minimum})")

    replay_path = None
    if fresh:
        os.makedirs(os.path.join(core.REPLAY, prop), exist_ok=True)
        v = fresh[0]
        name = core.digest([v["kind"], v["case"]]) + ".json"
        replay_path = os.path.join(core.REPLAY, prop, name)
        json.dump({"property": prop, "tier": a.tier, "seed": a.seed,
                   "shard": v.get("shard"), "violation": v,
                   "others": fresh[1:20]}, open(replay_path, "w"), indent=1)

    wall = time.time() - t0
    if not a.no_evidence and not a.replay:
        write_evidence(mod, prop, a, agg, nn, known, fresh, wall)

    kinds = {}
    for v in fresh:
        kinds[v["kind"]] = kinds.get(v["kind"], 0) + 1
    print(f"{prop} tier={a.tier} seed={a.seed}: {agg['evaluations']} evaluations, "
          f"{nn} distinct non-trivial, {len(agg['violations'])} flagged "
          f"({len(fresh)} new, {sum(n for _, n in known.values())} known), "
          f"{wall:.1f}s")
    worst = sorted(agg["margin"].items(), key=lambda kv: -kv[1])[:6]
    if worst:
        print("  worst error/tolerance ratios:",
              ", ".join(f"{k}={v:.3g}" for k, v in worst))
    if fresh:
        for k, n in sorted(kinds.items()):
            print(f"  new violation kind {k}: {n}")
        v = fresh[0]
        print("  first:", json.dumps({"kind": v["kind"], "case": v["case"],
                                      "detail": v["detail"]})[:1500])
        print(f"VIOLATION property={prop} replay={replay_path}")
        return core.EXIT_VIOLATION
    if agg["inconclusive"]:
        for s in agg["inconclusive"][:10]:
            print("INCONCLUSIVE:", s)
        return core.EXIT_INCONCLUSIVE
    return core.EXIT_HELD


def write_evidence(mod, prop, a, agg, nn, known, fresh, wall):
    os.makedirs(core.EVIDENCE, exist_ok=True)
    cov = {
        "evaluations": int(agg["evaluations"]),
        "distinct_nontrivial": int(nn),
        "rule": getattr(mod, "RULE", ""),
        "samples": agg["samples"][:4] or ["(no case recorded)"],
        "shards": agg["shards"],
        "monitor_evaluations": {k[4:]: v for k, v in sorted(agg["counters"].items())
                                if k.startswith("mon:")},
        "coverage_cells": {k: v for k, v in sorted(agg["counters"].items())
                           if not k.startswith(("mon:", "violation:"))},
        "worst_error_over_tolerance": {k: float(f"{v:.4g}") if v != float("inf")
                                       else "inf"
                                       for k, v in sorted(agg["margin"].items())},
        "refused_ill_conditioned": agg["refused"],
        "known_finding_observations": {k: n for k, (f, n) in known.items()},
        "new_violation_kinds": sorted({v["kind"] for v in fresh}),
        "inconclusive_reasons": agg["inconclusive"][:10],
        "exhaustive": False,
    }
    if hasattr(mod, "evidence_extra"):
        cov.update(mod.evidence_extra(agg, a.tier) or {})
    ev = {"property_id": prop, "tier": a.tier, "seed": int(a.seed),
          "level": getattr(mod, "LEVEL", "exploration"), "coverage": cov,
          "assumptions": getattr(mod, "ASSUMPTIONS", []),
          "wall_s": round(wall, 2), "violations": len(fresh)}
    ev = core.jsonable(ev)
    try:
        import jsonschema
        schema = json.load(open("/root/.vp/EVIDENCE.schema.json"))
        jsonschema.validate(ev, schema)
    except (FileNotFoundError, ImportError):
        pass
    except Exception as e:  # still write the file; say why it is not valid
        print("EVIDENCE-SCHEMA-WARNING:", str(e).splitlines()[0][:300])
    path = os.path.join(core.EVIDENCE, prop + ".json")
    json.dump(ev, open(path, "w"), indent=1, sort_keys=True)


if __name__ == "__main__":
    sys.exit(main())
