#!/venv/bin/python
"""Which parameters of the functions a property observes were ever given a non-default
value by its workload?

    /venv/bin/python tools/option_coverage.py C15 [--tier quick] [--all]

Runs the check's shards with VF_COVER=2 (sys.monitoring PY_START + frame locals) and
prints, for every public function of the anchor files that was entered, the classes of
values each parameter saw; parameters that only ever saw their default are marked
`DEFAULT-ONLY`.  Diagnostic for widening workloads (this is how the never-used `fs`
argument of frclim.calcAM was found); not part of any verdict."""
import importlib
import inspect
import json
import os
import sys
import tempfile

ROOT = os.path.dirname(os.path.dirname(os.path.abspath(__file__)))
sys.path.insert(0, ROOT)
from vf import core, cli  # noqa: E402


def _cls_default(v):
    if v is None or isinstance(v, (bool, str)):
        return repr(v)[:40]
    if isinstance(v, (int, float)):
        return repr(v) if abs(v) < 1000 and v == int(v) else type(v).__name__
    return None


def main():
    prop = sys.argv[1].upper()
    tier = sys.argv[sys.argv.index("--tier") + 1] if "--tier" in sys.argv else "quick"
    show_all = "--all" in sys.argv
    core.ensure_deps()
    mod = importlib.import_module("vf.props." + prop.lower())
    anchors = None
    for l in open(os.path.join(ROOT, "properties.jsonl")):
        d = json.loads(l)
        if d["id"] == prop:
            anchors = [f for f in d["anchors"]["files"] if f.endswith(".py")]
    os.environ["VF_COVER"] = "2"
    seen = {}
    with tempfile.TemporaryDirectory() as wd:
        if hasattr(mod, "prepare"):
            mod.prepare(tier, 0)
        import concurrent.futures as cf
        plist = mod.shards(tier, 0)
        with cf.ThreadPoolExecutor(max_workers=16) as ex:
            outs = list(ex.map(lambda ip: cli.run_one(prop, tier, 0, ip[0], ip[1], wd, 7200),
                               enumerate(plist)))
    for o in outs:
        for k, d in ((o["res"] or {}).get("argseen") or {}).items():
            t = seen.setdefault(k, {})
            for a, v in d.items():
                t.setdefault(a, set()).update(v)
    sys.path.insert(0, core.REPO)
    for a in anchors:
        rel = a[len("pyyeti/"):]
        modname = a[:-3].replace("/", ".")
        try:
            m = importlib.import_module(modname)
        except Exception as e:
            print("cannot import", modname, e)
            continue
        print("== " + a)
        for key in sorted(k for k in seen if k.startswith(rel + "::")):
            qual = key.split("::")[1]
            if "<locals>" in qual or qual.split(".")[-1].startswith("_") and \
                    qual.split(".")[-1] != "__init__":
                continue
            obj = m
            try:
                for part in qual.split("."):
                    obj = getattr(obj, part)
                sig = inspect.signature(obj)
            except Exception:
                continue
            lines = []
            for nm, prm in sig.parameters.items():
                if prm.default is inspect._empty or nm not in seen[key]:
                    continue
                vals = seen[key][nm]
                dc = _cls_default(prm.default)
                only = dc is not None and vals == {dc}
                if only or show_all:
                    lines.append("      %-14s default=%-10r saw %s%s" % (
                        nm, prm.default, sorted(vals), "   DEFAULT-ONLY" if only else ""))
            if lines:
                print("   " + qual)
                print("\n".join(lines))


if __name__ == "__main__":
    main()
