#!/bin/bash
# Re-runs every registered quick check in /verif against /repo (writes evidence/<id>.json).
cd "$(dirname "$0")/.."
rc_all=0
for p in ${PROPS:-C01 C02 C03 C04 C05 C06 C07 C08 C09 C10 C11 C12 C13 C14 C15 C16 C17 C18 C19 C20}; do
  /venv/bin/python -m vf.cli $p --tier ${TIER:-quick} > /tmp/evidence_$p.log 2>&1; rc=$?
  echo "$p rc=$rc $(grep -E "^$p tier" /tmp/evidence_$p.log | cut -c1-140)"
  [ $rc -ne 0 ] && rc_all=1
  rm -f /tmp/evidence_$p.log
done
exit $rc_all
