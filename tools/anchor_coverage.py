#!/venv/bin/python
"""Which functions of a property's anchor files does its quick workload enter?

    /venv/bin/python tools/anchor_coverage.py C13 [--tier quick]

Runs the check's shards with VF_COVER=1 (sys.monitoring PY_START, function level) and
lists the functions defined in the anchor files that were never entered.  Diagnostic for
widening workloads; not part of any verdict."""
import ast
import importlib
import json
import os
import subprocess
import sys
import tempfile

ROOT = os.path.dirname(os.path.dirname(os.path.abspath(__file__)))
sys.path.insert(0, ROOT)
from vf import core, cli  # noqa: E402


def functions_of(path):
    out = []
    tree = ast.parse(open(path).read())

    def walk(node, prefix):
        for ch in ast.iter_child_nodes(node):
            if isinstance(ch, (ast.FunctionDef, ast.AsyncFunctionDef)):
                out.append((prefix + ch.name, ch.lineno))
                walk(ch, prefix + ch.name + ".<locals>.")
            elif isinstance(ch, ast.ClassDef):
                walk(ch, prefix + ch.name + ".")
    walk(tree, "")
    return out


def main():
    prop = sys.argv[1].upper()
    tier = sys.argv[3] if len(sys.argv) > 3 and sys.argv[2] == "--tier" else "quick"
    core.ensure_deps()
    mod = importlib.import_module("vf.props." + prop.lower())
    anchors = None
    for l in open(os.path.join(ROOT, "properties.jsonl")):
        d = json.loads(l)
        if d["id"] == prop:
            anchors = [f for f in d["anchors"]["files"] if f.endswith(".py")]
    os.environ["VF_COVER"] = "1"
    entered = set()
    with tempfile.TemporaryDirectory() as wd:
        if hasattr(mod, "prepare"):
            mod.prepare(tier, 0)
        import concurrent.futures as cf
        plist = mod.shards(tier, 0)
        with cf.ThreadPoolExecutor(max_workers=16) as ex:
            outs = list(ex.map(lambda ip: cli.run_one(prop, tier, 0, ip[0], ip[1], wd, 3600),
                               enumerate(plist)))
    for o in outs:
        for fn, qual, line in (o["res"] or {}).get("entered", []):
            entered.add((fn, line))
    for a in anchors:
        rel = a[len("pyyeti/"):]
        funcs = functions_of(os.path.join(core.REPO, a))
        miss = [(q, ln) for q, ln in funcs
                if (rel, ln) not in entered and not any(
                    (rel, ln2) in entered for ln2 in (ln - 1, ln - 2, ln - 3))]
        print(f"== {a}: {len(funcs) - len(miss)}/{len(funcs)} functions entered; never entered:")
        for q, ln in miss:
            print(f"   {q}  (line {ln})")


if __name__ == "__main__":
    main()
