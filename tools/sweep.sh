#!/bin/bash
# usage: tools/sweep.sh <tier> <outdir> <seed> [seed...]   (env PROPS="C01 C02" to restrict)
cd "$(dirname "$0")/.."
tier=$1; out=$2; shift 2
mkdir -p "$out"
props=${PROPS:-C01 C02 C03 C04 C05 C06 C07 C08 C09 C10 C11 C12 C13 C14 C15 C16 C17 C18 C19 C20}
for seed in "$@"; do
for p in $props; do
  s=$(date +%s)
  VERIF_SEED=$seed /venv/bin/python -m vf.cli $p --tier $tier --no-evidence > "$out/$p.$tier.$seed.log" 2>&1
  rc=$?
  e=$(date +%s)
  echo "$p tier=$tier seed=$seed rc=$rc wall=$((e-s))" | tee -a "$out/summary_$tier.txt"
done
done
echo DONE >> "$out/summary_$tier.txt"
