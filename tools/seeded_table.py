#!/venv/bin/python
"""Rewrites the table between the SEEDED-TABLE markers of DESIGN.md from seeded/*/meta.json."""
import glob
import json
import os
import re

ROOT = os.path.dirname(os.path.dirname(os.path.abspath(__file__)))


def short(s, n):
    s = " ".join(str(s).split())
    return s if len(s) <= n else s[:n - 3] + "..."


def main():
    rows = []
    stats = {"first_caught": 0, "first_missed": 0, "now_caught": 0, "now_missed": 0}
    for d in sorted(glob.glob(os.path.join(ROOT, "seeded", "*", "meta.json"))):
        name = d.split(os.sep)[-2]
        m = json.load(open(d))
        chk = m.get("check") or {}
        first = m.get("first_verdict", chk.get("verdict", "?"))
        now = chk.get("verdict", "?")
        stats["first_caught" if first == "CAUGHT" else "first_missed"] += 1
        stats["now_caught" if now == "CAUGHT" else "now_missed"] += 1
        kinds = "; ".join(re.sub(r"^new violation kind ", "", k).split(":")[0]
                          if False else re.sub(r"^new violation kind ", "", k)
                          for k in chk.get("kinds", [])[:3])
        rows.append("| {} | {} | {} | {} | {} | {} |".format(
            name, short(m.get("title", ""), 150).replace("|", "/"),
            short(m.get("needs_to_manifest", ""), 170).replace("|", "/"),
            first + (" -> " + now if first != now else ""),
            short(m.get("closed_by", ""), 170).replace("|", "/"),
            short(kinds, 110).replace("|", "/")))
    head = ("{} independently written, confirmed breaking changes; first run of the then-current "
            "check: {} caught, {} missed; now: {} caught, {} missed.\n\n"
            "| id | change (written by a sub-agent that saw only the property text) | needs, "
            "to manifest | verdict (first -> now) | what closed the miss | monitors that fire "
            "now (count) |\n|---|---|---|---|---|---|\n").format(
        len(rows), stats["first_caught"], stats["first_missed"], stats["now_caught"],
        stats["now_missed"])
    p = os.path.join(ROOT, "DESIGN.md")
    s = open(p).read()
    a, b = "<!-- SEEDED-TABLE:BEGIN -->", "<!-- SEEDED-TABLE:END -->"
    i, j = s.index(a) + len(a), s.index(b)
    s = s[:i] + "\n" + head + "\n".join(rows) + "\n" + s[j:]
    open(p, "w").write(s)
    print(len(rows), stats)


if __name__ == "__main__":
    main()
