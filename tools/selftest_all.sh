#!/bin/bash
# Runs the mutant catalogue of every property (or the ones given) and prints one line per mutant.
cd "$(dirname "$0")/.."
props=${@:-C01 C02 C03 C04 C05 C06 C07 C08 C09 C10 C11 C12 C13 C14 C15 C16 C17 C18 C19 C20}
for p in $props; do
  echo "=== $p"
  /venv/bin/python -m vf.selftest $p 2>&1 | grep -E "CAUGHT|MISSED|STALE|Error|error" 
done
