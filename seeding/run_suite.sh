#!/bin/bash
# usage: run_suite.sh <worktree> [pytest args...]
# Runs the repository's test-suite from <worktree> against <worktree>'s sources and
# compares the set of failing tests with the baseline list (13 known failures).
WT=$(realpath "$1"); shift
HERE=$(dirname "$(realpath "$0")")
cd "$WT" || exit 2
export OPENBLAS_NUM_THREADS=1 OMP_NUM_THREADS=1 MKL_NUM_THREADS=1  # shared machine: no BLAS oversubscription
# build the C rainflow extension in place if missing (the tests exercise it)
if ! ls pyyeti/rainflow/c_rain*.so >/dev/null 2>&1; then
  gcc -O2 -shared -fPIC -I/root/.pyenv/versions/3.12.1/include/python3.12 \
      -I/venv/lib/python3.12/site-packages/numpy/_core/include \
      pyyeti/rainflow/c_rain.c -o pyyeti/rainflow/c_rain.cpython-312-x86_64-linux-gnu.so || exit 2
fi
PYTHONPATH="$WT" /venv/bin/python -m pytest -q -p no:cacheprovider --timeout=900 -x --co -q >/dev/null 2>&1
PYTHONPATH="$WT" /venv/bin/python -m pytest -q -p no:cacheprovider --timeout=900 "$@" 2>&1 | tee /tmp/suite_$$.log | tail -3
grep ^FAILED /tmp/suite_$$.log | sed 's/ - .*//' | sort > /tmp/suite_$$.failed
grep -q "^ERROR" /tmp/suite_$$.log && { echo "SUITE: collection/ERROR lines present"; grep ^ERROR /tmp/suite_$$.log | head; }
if [ $# -eq 0 ]; then
  if diff <(sort "$HERE/baseline_failed.txt") /tmp/suite_$$.failed >/dev/null; then
    echo "SUITE: same failing set as baseline (13 known failures) -> change is invisible to the existing tests"
    rc=0
  else
    echo "SUITE: failing set differs from baseline:"; diff <(sort "$HERE/baseline_failed.txt") /tmp/suite_$$.failed; rc=1
  fi
else rc=0; fi
rm -f /tmp/suite_$$.log /tmp/suite_$$.failed
exit $rc
